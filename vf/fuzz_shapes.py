#!/venv/bin/python
"""Coverage-guided fuzzing (atheris/libFuzzer) of the pure-Python SHAPE ALGEBRA of the combinators' constructors.

Children are parameter-free `Identity(shape)` bijections, so one execution is pure Python (no XLA dispatch) and
atheris reaches thousands of executions per second.  Oracle (inside the target):
  * Stack / Concatenate / Chain / Reshape / Vmap(axis_size) declare exactly the shape NumPy's stack / concatenate /
    reshape semantics give, for every axis including negative ones;
  * they raise exactly when NumPy's operation on zero-arrays of the children's shapes raises (shape mismatch, axis out
    of range, element-count change) - i.e. documented incompatibilities are rejected (C13) and valid ones accepted (C08);
  * merge_cond_shapes returns the unique non-None shape or raises.
Usage: python -m vf.fuzz_shapes --runs N --seed S [--out FILE]   (exit 1 + JSON failure record if the oracle fails)."""
import json
import os
import sys

HERE = os.path.dirname(os.path.dirname(os.path.abspath(__file__)))
sys.path.insert(0, os.path.join(HERE, ".deps"))


def main():
    import argparse
    ap = argparse.ArgumentParser()
    ap.add_argument("--runs", type=int, default=20000)
    ap.add_argument("--seed", type=int, default=1)
    ap.add_argument("--out", default=None)
    a = ap.parse_args()
    from vf import shim  # noqa: F401
    import atheris
    import numpy as np

    with atheris.instrument_imports(include=["flowjax.bijections.concatenate", "flowjax.bijections.chain", "flowjax.utils",
                                            "flowjax.bijections.utils", "flowjax.bijections.jax_transforms"]):
        import importlib
        import flowjax.bijections.concatenate, flowjax.bijections.chain, flowjax.utils  # noqa: E401,F401
        import flowjax.bijections.utils, flowjax.bijections.jax_transforms  # noqa: E401,F401
        for m in ("flowjax.utils", "flowjax.bijections.concatenate", "flowjax.bijections.chain", "flowjax.bijections.utils",
                  "flowjax.bijections.jax_transforms"):
            importlib.reload(sys.modules[m])
    from flowjax.bijections.chain import Chain
    from flowjax.bijections.concatenate import Concatenate, Stack
    from flowjax.bijections.jax_transforms import Vmap
    from flowjax.bijections.utils import Identity, Reshape
    from flowjax.utils import merge_cond_shapes

    stats = {"execs": 0, "valid": 0, "rejected": 0, "kinds": {}, "samples": []}
    failure = {}

    def shape(fdp, maxrank=3):
        return tuple(fdp.ConsumeIntInRange(1, 3) for _ in range(fdp.ConsumeIntInRange(0, maxrank)))

    def dump():
        if a.out:
            json.dump({"stats": stats, "failure": failure}, open(a.out, "w"), default=str)

    def target(data):
        try:
            _target(data)
        except RuntimeError:
            dump()  # libFuzzer leaves via _exit: write the record before the exception reaches it
            raise
        if stats["execs"] % 1000 == 0 or stats["execs"] >= a.runs - 1:
            dump()

    def _target(data):
        fdp = atheris.FuzzedDataProvider(data)
        kind = fdp.ConsumeIntInRange(0, 5)
        name = ["Stack", "Concatenate", "Chain", "Reshape", "Vmap", "merge_cond_shapes"][kind]
        stats["execs"] += 1
        stats["kinds"][name] = stats["kinds"].get(name, 0) + 1
        rec = None
        try:
            if kind in (0, 1, 2):
                n = fdp.ConsumeIntInRange(1, 3)
                base = shape(fdp)
                shapes = []
                for _ in range(n):  # mostly equal shapes, sometimes perturbed in one axis
                    s = list(base)
                    if s and fdp.ConsumeIntInRange(0, 3) == 0:
                        i = fdp.ConsumeIntInRange(0, len(s) - 1)
                        s[i] = fdp.ConsumeIntInRange(1, 3)
                    if fdp.ConsumeIntInRange(0, 9) == 0:
                        s = s[1:]
                    shapes.append(tuple(s))
                axis = fdp.ConsumeIntInRange(-4, 4)
                rec = {"kind": name, "shapes": shapes, "axis": axis}
                kids = [Identity(s) for s in shapes]
                zs = [np.zeros(s) for s in shapes]
                if kind == 0:
                    try:
                        want = np.stack(zs, axis).shape
                    except Exception:
                        want = None
                    build = lambda: Stack(kids, axis=axis)  # noqa: E731
                elif kind == 1:
                    try:
                        want = np.concatenate(zs, axis).shape
                    except Exception:
                        want = None
                    build = lambda: Concatenate(kids, axis=axis)  # noqa: E731
                else:
                    want = shapes[0] if all(s == shapes[0] for s in shapes) else None
                    build = lambda: Chain(kids)  # noqa: E731
            elif kind == 3:
                s1, s2 = shape(fdp), shape(fdp)
                rec = {"kind": name, "from": s1, "to": s2}
                want = s2 if int(np.prod(s1)) == int(np.prod(s2)) else None
                build = lambda: Reshape(Identity(s1), s2)  # noqa: E731
            elif kind == 4:
                s1, n = shape(fdp, 2), fdp.ConsumeIntInRange(1, 4)
                rec = {"kind": name, "child": s1, "axis_size": n}
                want = (n, *s1)
                build = lambda: Vmap(Identity(s1), axis_size=n)  # noqa: E731
            else:
                cs = [None if fdp.ConsumeBool() else shape(fdp, 2) for _ in range(fdp.ConsumeIntInRange(0, 4))]
                rec = {"kind": name, "shapes": cs}
                nn = [c for c in cs if c is not None]
                if not cs:
                    want, ok = None, False
                elif not nn:
                    want, ok = None, True
                else:
                    ok = all(c == nn[0] for c in nn)
                    want = nn[0] if ok else None
                try:
                    got = merge_cond_shapes(cs)
                    if not ok or got != want:
                        failure.update(rec=rec, why=f"returned {got}, expected {'an error' if not ok else want}")
                        raise RuntimeError("oracle")
                    stats["valid"] += 1
                except ValueError:
                    if ok:
                        failure.update(rec=rec, why="raised for compatible shapes")
                        raise RuntimeError("oracle")
                    stats["rejected"] += 1
                return
            try:
                obj = build()
            except (ValueError, IndexError, TypeError) as e:
                if want is not None:
                    failure.update(rec=rec, why=f"raised {type(e).__name__} although numpy accepts and gives {want}")
                    raise RuntimeError("oracle")
                stats["rejected"] += 1
                return
            if want is None:
                failure.update(rec=rec, why=f"accepted (declared {tuple(obj.shape)}) although numpy rejects these shapes/axis")
                raise RuntimeError("oracle")
            if tuple(obj.shape) != tuple(want):
                failure.update(rec=rec, why=f"declared {tuple(obj.shape)}, numpy semantics give {tuple(want)}")
                raise RuntimeError("oracle")
            stats["valid"] += 1
            if len(stats["samples"]) < 6 and stats["execs"] % 97 == 0:
                stats["samples"].append(rec)
        except RuntimeError:
            raise

    work = os.path.join(HERE, ".work", f"fuzz-{os.getpid()}")
    os.makedirs(work, exist_ok=True)
    argv = [sys.argv[0], f"-runs={a.runs}", f"-seed={a.seed if a.seed else 1}", "-max_len=64", f"-artifact_prefix={work}/", work]
    atheris.Setup(argv, target)
    rc = 0
    try:
        atheris.Fuzz()
    except SystemExit as e:  # libFuzzer exits the process on its own normally; this is for completeness
        rc = int(e.code or 0)
    finally:
        if a.out:
            json.dump({"stats": stats, "failure": failure}, open(a.out, "w"), default=str)


if __name__ == "__main__":
    main()
