"""Worker process: python -m vf.worker PROP --tier T --seed S --index K --nworkers P --out FILE
   or                python -m vf.worker PROP --replay FILE --out FILE"""
import argparse
import importlib
import json
import os
import sys
import traceback


def main():
    ap = argparse.ArgumentParser()
    ap.add_argument("prop")
    ap.add_argument("--tier", default="quick")
    ap.add_argument("--seed", type=int, default=1)
    ap.add_argument("--index", type=int, default=0)
    ap.add_argument("--nworkers", type=int, default=1)
    ap.add_argument("--gindex", type=int, default=None)
    ap.add_argument("--gsize", type=int, default=None)
    ap.add_argument("--out", required=True)
    ap.add_argument("--replay", default=None)
    ap.add_argument("--known", default=None)
    a = ap.parse_args()

    from vf import shim  # noqa: F401  (must be first)
    from vf.core import Ctx, HarnessError, Violation

    ctx = Ctx(a.prop, a.tier, a.seed, a.index, a.nworkers)
    ctx.f32 = shim.F32
    ctx.gindex = a.index if a.gindex is None else a.gindex
    ctx.gsize = a.nworkers if a.gsize is None else a.gsize
    res = {"ok": False}
    try:
        mod = importlib.import_module(f"vf.props.{a.prop.lower()}")
        known = json.load(open(a.known)) if a.known else []
        mine = [k for k in known if k.get("property") == a.prop]
        ctx.open_patterns = [k["signature"] for k in mine if k.get("status") == "open"]
        if a.replay:
            rep = json.load(open(a.replay))
            spec = rep.get("spec", rep)
            try:
                mod.replay(spec, ctx)
                res["replay"] = "pass"
            except Violation as v:
                res["replay"] = "fail"
                res["signature"], res["detail"] = v.signature, v.detail
        else:
            # probes of open findings + regression corpus: worker 0 only
            if a.index == 0:
                probes = []
                for k in mine:
                    if k.get("status") == "open" and "probe" in k:
                        saved, ctx.open_patterns = ctx.open_patterns, []
                        try:
                            mod.replay(k["probe"], ctx)
                            probes.append({"signature": k["signature"], "reproduces": False})
                        except Violation as v:
                            probes.append({"signature": k["signature"], "reproduces": True,
                                           "got": v.signature, "detail": v.detail[:500],
                                           "what": k.get("what", k.get("description", ""))})
                        finally:
                            ctx.open_patterns = saved
                res["probes"] = probes
                cdir = os.path.join(os.path.dirname(os.path.dirname(os.path.abspath(__file__))), "corpus", a.prop)
                n_corpus = 0
                if os.path.isdir(cdir):
                    for fn in sorted(os.listdir(cdir)):
                        if fn.endswith(".json"):
                            spec = json.load(open(os.path.join(cdir, fn)))
                            spec = spec.get("spec", spec)
                            n_corpus += 1
                            try:
                                mod.replay(spec, ctx)
                            except Violation as v:
                                ctx.fail(v.signature, spec, f"[corpus {fn}] {v.detail}")
                res["corpus_replayed"] = n_corpus
            mod.run(ctx)
        res["ok"] = True
    except HarnessError as e:
        res["error"] = f"HarnessError: {e}\n{traceback.format_exc()}"
    except Exception as e:  # noqa: BLE001
        res["error"] = f"{type(e).__name__}: {e}\n{traceback.format_exc()}"
    res["ctx"] = ctx.dump()
    with open(a.out, "w") as f:
        json.dump(res, f, default=str)
    sys.stdout.flush()
    os._exit(0 if res["ok"] else 2)


if __name__ == "__main__":
    main()
