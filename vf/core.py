"""Collector, Violation, Hypothesis driver, library-call wrapper.  No jax import here."""
from __future__ import annotations

import hashlib
import json
import os
import sys
import time
import traceback


class Violation(Exception):
    """An oracle failure.  ``signature`` names WHAT failed (not the random case)."""

    def __init__(self, signature: str, detail: str = ""):
        super().__init__(f"{signature} :: {detail}")
        self.signature = signature
        self.detail = detail


class HarnessError(Exception):
    pass


def spec_hash(spec) -> str:
    return hashlib.sha1(json.dumps(spec, sort_keys=True, default=str).encode()).hexdigest()[:16]


def jsonable(x):
    """Best-effort conversion to plain JSON types (numpy scalars / arrays / tuples)."""
    try:
        import numpy as np
    except Exception:  # pragma: no cover
        np = None
    if isinstance(x, dict):
        return {str(k): jsonable(v) for k, v in x.items()}
    if isinstance(x, (list, tuple)):
        return [jsonable(v) for v in x]
    if np is not None:
        if isinstance(x, np.generic):
            return x.item()
        if isinstance(x, np.ndarray):
            return x.tolist()
    if hasattr(x, "tolist") and hasattr(x, "shape"):
        return jsonable(x.tolist())
    if isinstance(x, float):
        if x != x:
            return "nan"
        if x in (float("inf"), float("-inf")):
            return "inf" if x > 0 else "-inf"
    return x


class Ctx:
    """Per-worker collector of counters, samples, failures."""

    MAX_SAMPLES = 6

    def __init__(self, prop, tier, seed, index, nworkers):
        self.prop, self.tier, self.seed = prop, tier, seed
        self.index, self.nworkers = index, nworkers
        self.evaluations = 0
        self.nontrivial = set()
        self.samples = []
        self._biggest = (0, None)
        self.hists = {}
        self.ratios = {}
        self.excluded = {}
        self.inconclusive = {}
        self.failures = []  # dicts: signature, detail, spec
        self.known_hits = {}  # signature -> count (violations matching an open finding)
        self.notes = []
        self.exhaustive = {}
        self.open_patterns = []  # signature prefixes of open known findings
        self.t0 = time.time()
        self._since_clear = 0
        self.f32 = False
        self.gindex, self.gsize = index, nworkers

    # ---- counters -------------------------------------------------------
    def evaluated(self, n=1):
        self.evaluations += n

    def mark_nontrivial(self, key):
        self.nontrivial.add(key if isinstance(key, str) else spec_hash(key))

    def sample(self, spec):
        s = jsonable(spec)
        n = len(json.dumps(s, default=str))
        if len(self.samples) < self.MAX_SAMPLES - 1:
            self.samples.append(s)
        if n > self._biggest[0]:
            self._biggest = (n, s)

    def hist(self, name, value, n=1):
        h = self.hists.setdefault(name, {})
        k = str(value)
        h[k] = h.get(k, 0) + n

    def ratio(self, name, r):
        r = float(r)
        if r != r:
            return
        if r > self.ratios.get(name, 0.0):
            self.ratios[name] = r

    def exclude(self, name, n=1):
        self.excluded[name] = self.excluded.get(name, 0) + n

    def inconcl(self, name, n=1):
        self.inconclusive[name] = self.inconclusive.get(name, 0) + n

    def note(self, s):
        if len(self.notes) < 50:
            self.notes.append(s)

    # ---- failures -------------------------------------------------------
    def is_known(self, signature):
        return any(signature.startswith(p) for p in self.open_patterns)

    def fail(self, signature, spec, detail):
        if self.is_known(signature):
            self.known_hits[signature] = self.known_hits.get(signature, 0) + 1
            return
        for f in self.failures:
            if f["signature"] == signature:
                f["count"] += 1
                return
        self.failures.append(
            {"signature": signature, "detail": str(detail)[:2000], "spec": jsonable(spec), "count": 1, "f32": bool(self.f32)}
        )

    def dump(self):
        samples = list(self.samples)
        if self._biggest[1] is not None and self._biggest[1] not in samples:
            samples.append(self._biggest[1])
        return {
            "index": self.index,
            "evaluations": self.evaluations,
            "nontrivial": sorted(self.nontrivial),
            "samples": samples,
            "hists": self.hists,
            "ratios": self.ratios,
            "excluded": self.excluded,
            "inconclusive": self.inconclusive,
            "failures": self.failures,
            "known_hits": self.known_hits,
            "notes": self.notes,
            "exhaustive": self.exhaustive,
            "wall_s": time.time() - self.t0,
        }

    # ---- housekeeping (DESIGN F4) -----------------------------------------
    def housekeeping(self, every=40):
        self._since_clear += 1
        if self._since_clear >= every:
            self._since_clear = 0
            clear_jax_caches()


def clear_jax_caches():
    import gc

    import jax

    jax.clear_caches()
    gc.collect()


def n_maps():
    try:
        with open("/proc/self/maps") as f:
            return sum(1 for _ in f)
    except Exception:
        return 0


def in_library(tb) -> str | None:
    """Return 'file:function' of the innermost traceback frame inside flowjax, if any."""
    from vf import shim

    hit = None
    for fs in traceback.extract_tb(tb):
        fn = os.path.abspath(fs.filename)
        if fn.startswith(shim.FLOWJAX_DIR):
            hit = f"{os.path.relpath(fn, shim.FLOWJAX_DIR)}:{fs.name}"
    return hit


def lib_call(where: str, fn, *args, **kwargs):
    """Call library code with VALID arguments; an exception it raises is a Violation
    (the properties promise a value).  Exceptions not involving flowjax frames propagate."""
    try:
        return fn(*args, **kwargs)
    except Violation:
        raise
    except Exception as e:  # noqa: BLE001
        loc = in_library(e.__traceback__)
        msg = f"{type(e).__name__}: {str(e)[:300]}"
        if loc is None and not _jaxy(e):
            raise
        raise Violation(f"{where}|raised:{type(e).__name__}", f"{msg} at {loc}") from e


def _jaxy(e):
    mod = type(e).__module__ or ""
    return mod.startswith(("jax", "equinox", "jaxlib"))


def expect_raises(where: str, fn, *args, **kwargs):
    """Call library code with INVALID arguments; returning a value is a Violation."""
    try:
        out = fn(*args, **kwargs)
    except Exception as e:  # noqa: BLE001
        return type(e).__name__
    raise Violation(f"{where}|accepted", f"returned {_short(out)} instead of raising")


def _short(x):
    try:
        return f"{type(x).__name__} shape={getattr(x, 'shape', None)}"
    except Exception:
        return type(x).__name__


# ---------------------------------------------------------------------------
# Hypothesis driver
# ---------------------------------------------------------------------------
def run_hypothesis(ctx: Ctx, strategy, oracle, max_examples: int, label: str = "", rounds: int | None = None,
                   shrink: bool = True, shrink_budget: int | None = None):
    """Drive ``oracle(spec, ctx)`` with Hypothesis.  Failures are shrunk, recorded on ctx
    (de-duplicated by signature), then the search continues with that signature muted so that
    up to ``rounds`` distinct root causes are enumerated."""
    import hypothesis
    from hypothesis import HealthCheck, Phase, given, settings

    fast = os.environ.get("VF_FAST_FAIL") == "1"  # seeded-change campaigns: only "caught or not" matters
    if fast and ctx.failures:
        return
    if fast:
        rounds, shrink_budget = 1, 10
    if rounds is None:
        rounds = 2 if ctx.tier == "quick" else 3
    if shrink_budget is None:
        shrink_budget = 50 if ctx.tier == "quick" else 150
    muted = set()
    phases = [Phase.explicit, Phase.generate] + ([Phase.shrink] if shrink else [])
    n = max(1, int(max_examples))
    for rnd in range(rounds):
        last = {}

        failed = {}

        def body(spec):
            h = spec_hash(spec)
            if h in failed:  # deterministic re-raise (Hypothesis' final replay / re-visits)
                last["v"], last["spec"] = failed[h], spec
                raise failed[h]
            if failed:  # shrinking: bounded number of further oracle executions
                last["n"] = last.get("n", 0) + 1
                if last["n"] > shrink_budget:
                    return
            if "harness" in last:
                return
            try:
                try:
                    oracle(spec, ctx)
                except Violation:
                    raise
                except Exception as e:  # noqa: BLE001
                    loc = in_library(e.__traceback__)
                    if loc is None:  # not raised from flowjax: a harness problem, abort the search
                        last["harness"] = (e, traceback.format_exc(), spec)
                        return
                    raise Violation(f"{ctx.prop}|{label}|raised:{type(e).__name__}@{loc}",
                                    f"{type(e).__name__}: {str(e)[:400]}") from e
            except Violation as v:
                if v.signature in muted or ctx.is_known(v.signature):
                    if ctx.is_known(v.signature):
                        ctx.known_hits[v.signature] = ctx.known_hits.get(v.signature, 0) + 1
                    return
                failed[h] = v
                last["v"], last["spec"] = v, spec
                raise
            finally:
                ctx.housekeeping()

        st = settings(
            max_examples=n,
            deadline=None,
            database=None,
            derandomize=False,
            report_multiple_bugs=False,
            suppress_health_check=list(HealthCheck),
            phases=phases,
            print_blob=False,
        )
        sd = (ctx.seed * 1_000_003 + ctx.index * 7919 + rnd * 104729 + _label_seed(label)) % (2**63)
        test = hypothesis.seed(sd)(st(given(strategy)(body)))
        try:
            test()
            if "harness" in last:
                e, tb, spec = last["harness"]
                raise HarnessError(f"{label}: {type(e).__name__}: {e}\nspec={json.dumps(jsonable(spec))[:3000]}\n{tb}")
        except Violation:
            v, spec = last["v"], last["spec"]
            ctx.fail(v.signature, {"label": label, "spec": spec}, v.detail)
            muted.add(v.signature)
            n = max(1, n // 2)
            continue
        except hypothesis.errors.Flaky as e:  # oracle not deterministic: harness problem
            raise HarnessError(f"flaky oracle in {label}: {e}") from e
        break


def _label_seed(label):
    return int(hashlib.sha1(label.encode()).hexdigest()[:8], 16)


def shard(items, ctx: Ctx):
    """Deterministic round-robin shard of an enumerable for this worker."""
    for i, it in enumerate(items):
        if i % getattr(ctx, "gsize", ctx.nworkers) == getattr(ctx, "gindex", ctx.index):
            yield it
