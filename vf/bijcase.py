"""Shared case construction for the bijection-level properties (C01, C02, C14, C18):
a *subject* is a bijection object with an input x in its domain, a condition, the element domain
tags, and flags (invertible, numerically inverted, onto)."""
from __future__ import annotations

import jax
import jax.numpy as jnp
import numpy as np
from hypothesis import strategies as st

from vf import build as bd
from vf import gen

EPS = float(np.finfo(bd.FDT).eps)


class Subject:
    def __init__(self, kind, name, obj, x, c, *, node=None, invertible=True, numinv=False, onto=False,
                 cod=None, dom=None, boundary=False, pool=(), tol_inv=None):
        self.kind, self.name, self.obj, self.x, self.c = kind, name, obj, x, c
        self.node, self.invertible, self.numinv, self.onto = node, invertible, numinv, onto
        self.cod, self.dom, self.boundary, self.pool = cod, dom, boundary, list(pool)
        self.tol_inv = tol_inv  # inverter tolerance if numerically inverted

    @property
    def cj(self):
        return None if self.c is None else jnp.asarray(self.c)


def jac(obj, x, c, method="transform"):
    """Autodiff Jacobian of the plain method, reshaped to (n, n).  Independent of every log-det formula.
    Forward mode: jacrev (vmap of vjp through lax.scan) segfaults in this jax/XLA build on some
    scanned spline flows, and forward mode also passes through lax.while_loop."""
    cj = None if c is None else jnp.asarray(c)
    f = getattr(obj, method)
    J = jax.jacfwd(lambda v: f(v, cj))(jnp.asarray(x))
    n = int(np.prod(np.shape(x))) if np.ndim(x) else 1
    return np.asarray(J, np.float64).reshape(n, n)


def jac_transform(s, x, y=None):
    """Jacobian of s.obj.transform at x.  When the forward direction is the numerically inverted one
    (bisection has no useful derivative) it is obtained as inv(J_inverse(y)) from the analytic side."""
    J = jac(s.obj, x, s.c, "transform")
    if s.numinv and (not np.all(np.isfinite(J)) or np.any(np.all(J == 0, axis=1))):
        if y is None:
            y = np.asarray(s.obj.transform(jnp.asarray(x), s.cj))
        try:
            Ji = jac(s.obj, y, s.c, "inverse")
            J = np.linalg.inv(Ji)
        except (np.linalg.LinAlgError, NotImplementedError):  # singular, or a forward-only part (planar-tanh) in the tree
            J = np.full_like(J, np.nan)
    return J


def inv_norm(J):
    try:
        Ji = np.linalg.inv(J)
    except np.linalg.LinAlgError:
        return np.inf, np.inf
    if not np.all(np.isfinite(Ji)):
        return np.inf, np.inf
    ninv = float(np.max(np.sum(np.abs(Ji), axis=1)))
    nj = float(np.max(np.sum(np.abs(J), axis=1)))
    return ninv, nj * ninv


PLANAR_TINY_F64 = 1e-3  # C01 (whose tolerance is scaled by the autodiff condition number) lowers this to 1e-4


def planar_degenerate(planar_obj, cond):
    """The planar parameterisation guarantees w.u_hat > -1 only up to rounding: once w.u is very negative
    (softplus underflow) 1 + w.u_hat is ~0 and the layer is numerically singular on one side of its
    hyperplane - inherent, documented in DESIGN section 5 ("not defects").  Such cases are inconclusive."""
    try:
        g = planar_obj.get_planar(None if cond is None else jnp.asarray(cond))
        w = np.asarray(g.weight, np.float64)
        uh = np.asarray(g.get_act_scale(), np.float64)
        wu = float(np.asarray(g._act_scale, np.float64) @ w)
        lim = -10.0 if bd.shim.F32 else -30.0
        slopes = [1.0] + ([float(g.negative_slope)] if g.negative_slope is not None else [])
        tiny = 3e-2 if bd.shim.F32 else PLANAR_TINY_F64  # conditioning of the planar inverse is 1/|1 + s w.u_hat|; get_act_scale itself loses ~1e-16 absolute
        return (not np.isfinite(wu)) or wu < lim or any(abs(1.0 + sl * float(w @ uh)) < tiny for sl in slopes)
    except Exception:  # noqa: BLE001
        return False


def tree_has_degenerate_planar(node, x, c):
    tr = bd.Trace()
    try:
        bd.ref_eval(node, "fwd", x, c, False, tr)
    except Exception:  # noqa: BLE001
        return False
    return any(n.kind == "Planar" and planar_degenerate(n.obj, cc) for n, d, xx, cc in tr.leaf_calls)


def tied_indices(xf, pool):
    """Coordinates sitting exactly on a value an implementation may compare against: the object's own pool, or a
    'round' number (k/2, |k/2| <= 6) - Hypothesis draws those often and they are typical interval ends / max_val."""
    pool = set(float(v) for v in pool)
    return [i for i, v in enumerate(xf) if float(v) in pool or (abs(v) <= 6 and float(2 * v).is_integer())]


def kink_match(eval_ld, x, pool, target, tol, delta=1e-8):
    """Is `target` reproduced by eval_ld at x with the tied coordinates displaced by +-delta (some sign pattern)?
    Exhaustive for <= 4 ties, greedy coordinate-wise descent (exact for separable log-dets) beyond."""
    import itertools
    xf = np.asarray(x, np.float64).reshape(-1)
    tied = tied_indices(xf, pool)
    if not tied:
        return False
    step = delta * (1 + np.abs(xf))

    def ld_at(signs):
        # one-sided limit by Richardson extrapolation from displacements delta and 2 delta (the log-derivative of a
        # spline can change by 1e4 per unit next to a narrow boundary bin)
        vals = []
        for m in (1.0, 2.0):
            xn = xf.copy()
            for i, sg in zip(tied, signs):
                xn[i] = xf[i] + sg * m * step[i]
            try:
                v = eval_ld(xn.reshape(np.shape(x)))
            except Exception:  # noqa: BLE001
                return np.inf
            if not np.isfinite(v):
                return np.inf
            vals.append(v)
        return 2 * vals[0] - vals[1]

    if len(tied) <= 4:
        return any(abs(target - ld_at(sg)) <= tol for sg in itertools.product((1.0, -1.0), repeat=len(tied)))
    for start in (1.0, -1.0):
        signs = [start] * len(tied)
        best = abs(target - ld_at(signs))
        for _ in range(2):
            for j in range(len(tied)):
                if best <= tol:
                    return True
                signs[j] = -signs[j]
                e = abs(target - ld_at(signs))
                if e < best:
                    best = e
                else:
                    signs[j] = -signs[j]
        if best <= tol:
            return True
    return False


def amax(a):
    a = np.asarray(a, np.float64)
    return float(np.max(np.abs(a), initial=0.0))


def _picked(inp, n):
    return any(inp["xpick"][i % len(inp["xpick"])] >= 0 for i in range(max(1, n)))


def subject_from_node(kind, node, inp):
    pool = bd.leaf_points(node) if kind == "leaf" else bd.tree_points(node)
    x = bd.make_input(inp["xraw"], inp["xpick"], pool, node.shape, node.dom, inp["sigma"])
    c = bd.make_cond(inp["craw"], node.cond_shape)
    onto = bool(node.cod_exact and np.all(node.cod == bd.R))
    n = int(np.prod(node.shape)) if node.shape else 1
    return Subject(kind, node.kind, node.obj, x, c, node=node, invertible=node.invertible, numinv=node.numinv,
                   onto=onto, cod=node.cod, dom=node.dom, boundary=_picked(inp, n), pool=pool,
                   tol_inv=(1e-7 if bd.shim.F32 else 1e-13) if node.numinv else None)


def prepare(case) -> Subject:
    k = case["kind"]
    ps = float(case.get("pscale", 0.0))
    inp = case["inp"]
    if k == "leaf":
        return subject_from_node("leaf", bd.build_leaf(case["spec"], ps), inp)
    if k == "tree":
        return subject_from_node("tree", bd.build(case["spec"], ps), inp)
    if k == "flow":
        sp = case["spec"]
        flow = bd.build_flow(sp)
        b = flow.bijection
        dim = int(sp["dim"])
        fpool = [0.0, 1.0, -1.0, 3.0, -3.0, 2.0, -2.0]  # spline interval ends of the transformers, tanh switch
        x = bd.make_input(inp["xraw"], inp["xpick"], fpool, (dim,), np.zeros(dim, int), inp["sigma"])
        c = bd.make_cond(inp["craw"], b.cond_shape)
        f = sp["factory"]
        tanh_planar = f == "planar_flow" and sp.get("negative_slope") is None
        numinv = f == "block_neural_autoregressive_flow"
        s = Subject("flow", f, b, x, c, invertible=not tanh_planar, numinv=numinv, onto=True,
                    cod=np.zeros(dim, int), dom=np.zeros(dim, int), boundary=False, pool=fpool,
                    tol_inv=(1e-7 if (bd.shim.F32 or not sp.get("tight", True)) else 1e-13) if numinv else None)
        s.fwd_only_dir = None
        if tanh_planar:  # only one direction exists: Invert(Scan) has no transform, Scan has no inverse
            s.fwd_only_dir = "inverse" if sp["invert"] else "transform"
        s.flow = flow
        return s
    raise ValueError(k)


@st.composite
def leaf_cases(draw, inv=True, numinv=True):
    return {"kind": "leaf", "spec": draw(gen.any_leaf(inv=inv, numinv=numinv)), "pscale": draw(gen.PSCALES),
            "inp": draw(gen.inputs())}


@st.composite
def tree_cases(draw, max_depth=3, max_nodes=8, numinv=True, inv=True):
    return {"kind": "tree", "spec": draw(gen.any_tree(max_depth, max_nodes, numinv=numinv, inv=inv)),
            "pscale": draw(gen.PSCALES), "inp": draw(gen.inputs())}


@st.composite
def flow_cases(draw, max_dim=3, factories=None):
    return {"kind": "flow", "spec": draw(gen.flow_spec(max_dim, factories)), "inp": draw(gen.inputs())}
