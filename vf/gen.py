"""Hypothesis strategies producing JSON specs (leaf catalogue and type-directed expression trees).

`tree(shape, cond, ...)` first fixes the target (shape, cond_shape) and then draws a tree producing
exactly it (construction, not rejection).  Flags keep compositions mathematically valid:
  R_dom : the node must accept every real input           (needed after another bijection in a Chain)
  onto  : the node's image must be all of R^n              (needed below Invert when R_dom is required)
  exact : the node's tagged codomain must be its exact image (needed below Invert)
  inv   : the node must implement an inverse               (planar-tanh does not)
"""
from __future__ import annotations

import math

import numpy as np
from hypothesis import strategies as st

SEEDS = st.integers(0, 10_000)


def _prod(s):
    return int(math.prod(s))


# ------------------------------------------------------------------------------------------
# leaves
# ------------------------------------------------------------------------------------------
@st.composite
def leaf(draw, shape, cond=None, force_cond=False, onto=False, inv=True, numinv=True, big=True, only=None):
    shape = tuple(shape)
    kinds = []
    if not (cond is not None and force_cond):
        kinds += ["Affine", "Affine", "Loc", "Scale", "LeakyTanh", "Identity", "Flip", "Permute"]
        if not onto:
            kinds += ["Exp", "SoftPlus", "Tanh"]
        if shape == ():
            kinds += ["RQS", "RQS", "RQS"]
        if len(shape) == 1:
            kinds += ["TriangularAffine", "TriangularAffine"]
    vec = len(shape) == 1 and (cond is None or len(cond) == 1)
    if vec and big:
        n = shape[0]
        kinds += ["Planar", "MAF"]
        if n >= 2:
            kinds += ["Coupling", "Coupling"]
        if numinv and n <= 3:
            kinds += ["BNAF"]
    if cond is not None:
        kinds += ["AdditiveCondition"] * (3 if force_cond else 1)
    k = only if only is not None else draw(st.sampled_from(kinds))
    s = {"k": k, "shape": list(shape), "seed": draw(SEEDS)}
    conditional_kinds = ("AdditiveCondition", "Planar", "Coupling", "MAF", "BNAF")
    if k in conditional_kinds and cond is not None and (force_cond or k == "AdditiveCondition" or draw(st.booleans())):
        s["cond"] = list(cond)
    if k == "Affine":
        if shape and draw(st.integers(0, 3)) == 0:  # broadcasting loc vs scale
            which = draw(st.sampled_from(["loc", "scale"]))
            red = list(shape)
            i = draw(st.integers(0, len(shape) - 1))
            red[i] = 1
            red = red[draw(st.integers(0, i)):] if draw(st.booleans()) else red
            other = "scale" if which == "loc" else "loc"
            s[f"{which}_shape"] = red if draw(st.booleans()) else []
            s[f"{other}_shape"] = list(shape)
        s["neg"] = draw(st.integers(0, 3)) == 0
    elif k == "Scale":
        s["neg"] = draw(st.integers(0, 3)) == 0
    elif k == "TriangularAffine":
        s["lower"] = draw(st.booleans())
        s["neg"] = draw(st.integers(0, 3)) == 0
        s["scalar_loc"] = draw(st.integers(0, 3)) == 0
    elif k == "LeakyTanh":
        s["max_val"] = draw(st.sampled_from([0.5, 1.0, 2.0, 3.0, 3.5]))
    elif k == "RQS":
        s["knots"] = draw(st.integers(1, 8))
        s["interval"] = draw(st.sampled_from([1, 2, 4.5, [-1, 2], [-3, 0.5], [1, 3], [-4, -1], [0, 2]]))
        s["min_derivative"] = draw(st.sampled_from([1e-3, 1e-2, 0.1]))
        s["softmax_adjust"] = draw(st.sampled_from([1e-2, 1e-3, 0.5, 1, 3]))
    elif k == "AdditiveCondition":
        s["module"] = draw(st.sampled_from(["tensor", "linear", "mlp"]))
    elif k == "Planar":
        opts = [0.1, 0.5, 1.0, 0.01] + ([] if inv else [None, None])
        s["negative_slope"] = draw(st.sampled_from(opts))
    elif k in ("Coupling", "MAF"):
        s["transformer"] = draw(st.sampled_from(["affine", "affine_min", "rqs", "rqs_asym"]))
        s["width"] = draw(st.sampled_from([1, 2, 4, shape[0] + 2]))
        s["depth"] = draw(st.integers(0, 2))
        if k == "Coupling":
            s["ud"] = draw(st.integers(1, shape[0] - 1))
    elif k == "BNAF":
        s["depth"] = draw(st.integers(0, 2))
        s["block_dim"] = draw(st.integers(1, 3))
    return s


LEAF_SHAPES = st.sampled_from([(), (1,), (2,), (3,), (4,), (2, 3), (3, 1), (2, 1, 2)])


ALL_LEAF_KINDS = ["Affine", "Loc", "Scale", "TriangularAffine", "Exp", "SoftPlus", "Tanh", "LeakyTanh", "Identity",
                  "Flip", "Permute", "AdditiveCondition", "RQS", "Planar", "Coupling", "MAF", "BNAF"]


@st.composite
def any_leaf(draw, inv=True, numinv=True, kinds=None):
    """A leaf of the catalogue: kind first (uniform over the catalogue), then a compatible shape."""
    pool = [k for k in (kinds or ALL_LEAF_KINDS) if numinv or k != "BNAF"]
    k = draw(st.sampled_from(pool))
    cond = draw(st.sampled_from([None, None, (2,), (1,), (2, 2), ()]))
    if k == "RQS":
        shape = ()
    elif k in ("TriangularAffine", "Planar", "MAF"):
        shape = (draw(st.integers(1, 4)),)
    elif k == "Coupling":
        shape = (draw(st.integers(2, 4)),)
    elif k == "BNAF":
        shape = (draw(st.integers(1, 3)),)
    else:
        shape = draw(LEAF_SHAPES)
    if k == "AdditiveCondition" and cond is None:
        cond = (2,)
    if k in ("Planar", "Coupling", "MAF", "BNAF") and cond is not None and len(cond) != 1:
        cond = (2,)
    return draw(leaf(shape, cond, force_cond=False, inv=inv, numinv=numinv, only=k))


# ------------------------------------------------------------------------------------------
# trees
# ------------------------------------------------------------------------------------------
def _alt_shapes(shape):
    n = _prod(shape)
    out = {(n,), tuple(reversed(shape)), (1, *shape), (*shape, 1)}
    for a in range(2, n):
        if n % a == 0:
            out.add((a, n // a))
    out.discard(tuple(shape))
    return sorted(s for s in out if len(s) <= 3)


@st.composite
def _index(draw, shape):
    """An index spec valid for an array of `shape` (rank >= 1), numpy semantics, no repeats."""
    n0 = shape[0]
    kinds = ["int", "slice", "iarr", "barr", "nint"]
    if len(shape) >= 2:
        kinds += ["tuple", "ellipsis", "barr_full"]
    k = draw(st.sampled_from(kinds))
    if k == "int":
        return {"t": "int", "v": draw(st.integers(0, n0 - 1))}
    if k == "nint":
        return {"t": "int", "v": draw(st.integers(-n0, -1))}
    if k == "slice":
        a = draw(st.integers(0, n0 - 1))
        b = draw(st.integers(a + 1, n0))
        step = draw(st.sampled_from([None, None, 2, -1, -2]))
        if step is not None and step < 0:  # reversed selection (NumPy semantics): from b-1 down to a
            return {"t": "slice", "v": [b - 1, (a - 1) if a > 0 else None, step]}
        return {"t": "slice", "v": [a, b, step]}
    if k == "iarr":
        idx = draw(st.lists(st.integers(0, n0 - 1), min_size=1, max_size=n0, unique=True))
        idx = [i - n0 if draw(st.integers(0, 3)) == 0 else i for i in idx]
        return {"t": "iarr", "v": idx}
    if k == "barr":
        m = draw(st.lists(st.booleans(), min_size=n0, max_size=n0))
        if not any(m):
            m[draw(st.integers(0, n0 - 1))] = True
        return {"t": "barr", "v": m}
    if k == "barr_full":
        n = _prod(shape)
        m = draw(st.lists(st.booleans(), min_size=n, max_size=n))
        if not any(m):
            m[0] = True
        return {"t": "barr", "v": np.asarray(m).reshape(shape).tolist()}
    if k == "tuple" and draw(st.integers(0, 2)) == 0:  # a 1-D boolean mask INSIDE a tuple index (documented index kind)
        n1 = shape[1]
        m = draw(st.lists(st.booleans(), min_size=n1, max_size=n1))
        if not any(m):
            m[draw(st.integers(0, n1 - 1))] = True
        lead = draw(st.sampled_from([{"t": "slice", "v": [0, n0, None]}, {"t": "int", "v": draw(st.integers(0, n0 - 1))}]))
        return {"t": "tuple", "v": [lead, {"t": "barr", "v": m}]}
    if k == "tuple":
        first = draw(st.sampled_from(["slice", "int"]))
        f = ({"t": "slice", "v": [0, n0, None]} if first == "slice"
             else {"t": "int", "v": draw(st.integers(0, n0 - 1))})
        return {"t": "tuple", "v": [f, {"t": "int", "v": draw(st.integers(-shape[1], shape[1] - 1))}]}
    if k == "ellipsis":
        return {"t": "tuple", "v": [{"t": "ellipsis"}, {"t": "int", "v": draw(st.integers(0, shape[-1] - 1))}]}
    raise AssertionError


def tree(shape, cond=None, max_depth=3, max_nodes=8, numinv=True, big=True, inv=True):
    """Strategy for an expression-tree spec with exactly this shape / cond_shape."""
    from vf.build import py_index

    @st.composite
    def _tree(draw):
        budget = [max_nodes]

        def gen(shape, cond, depth, R_dom, onto, exact, inv):
            shape = tuple(shape)
            force_cond = cond is not None
            budget[0] -= 1
            prods = []
            if depth > 0 and budget[0] > 1:
                prods += ["Chain", "Chain", "Invert", "Reshape", "Scan"]
                if len(shape) >= 1 and _prod(shape) >= 1:
                    prods += ["Vmap", "Vmap", "Partial"]
                    if any(d <= 3 for d in shape):
                        prods += ["Stack", "Stack"]
                    if any(d >= 2 for d in shape):
                        prods += ["Concatenate", "Concatenate"]
                if cond is not None:
                    prods += ["EmbedCondition"]
            prods += ["leaf"] * (2 if depth > 0 else 1)
            p = draw(st.sampled_from(prods))
            if not inv and p == "Invert":
                p = "leaf"
            fl = dict(R_dom=R_dom, onto=onto, exact=exact, inv=inv)
            if p == "leaf":
                return draw(leaf(shape, cond, force_cond=force_cond and cond is not None,
                                 onto=onto, inv=inv, numinv=numinv, big=big))
            if p == "Chain":
                m = draw(st.integers(2, 3))
                j = draw(st.integers(0, m - 1))
                ch = []
                for i in range(m):
                    ci = cond if (cond is not None and (i == j or draw(st.booleans()))) else None
                    last = i == m - 1
                    c = gen(shape, ci, depth - 1, R_dom if i == 0 else True,
                            onto or (exact and not last) or not last, exact and last, inv)
                    if c["k"] not in ("Chain",) and draw(st.integers(0, 7)) == 0:
                        c = dict(c, frozen=True)
                    ch.append(c)
                return {"k": "Chain", "children": ch}
            if p == "Scan":
                c = gen(shape, cond, depth - 1, True, True, False, inv)
                return {"k": "Scan", "n": draw(st.integers(2, 3)), "child": c}
            if p == "Invert":
                c = gen(shape, cond, depth - 1, onto, R_dom, True, True)
                return {"k": "Invert", "child": c}
            if p == "Reshape":
                alts = _alt_shapes(shape)
                cs = tuple(draw(st.sampled_from(alts))) if alts else shape
                ccond, give_cond = cond, None
                if cond is not None and force_cond and draw(st.booleans()):
                    calts = _alt_shapes(cond)
                    if calts:
                        ccond = tuple(draw(st.sampled_from(calts)))
                        give_cond = list(cond)
                c = gen(cs, ccond, depth - 1, R_dom, onto, exact, inv)
                return {"k": "Reshape", "shape": list(shape), "cond": give_cond, "child": c,
                        "give_shape": True}
            if p == "Vmap":
                n = shape[0]
                mapped = draw(st.booleans())
                ccond, cax = cond, None
                if cond is not None and force_cond:
                    axes = [a for a in range(len(cond)) if cond[a] == n]
                    if axes and draw(st.integers(0, 3)) > 0:
                        a = draw(st.sampled_from(axes))
                        ccond = tuple(d for i, d in enumerate(cond) if i != a)
                        cax = a - len(cond) if draw(st.booleans()) else a
                c = gen(shape[1:], ccond, depth - 1, R_dom, onto, exact, inv)
                s = {"k": "Vmap", "n": n, "mapped": mapped, "child": c}
                if cax is not None:
                    s["cond_axis"] = cax
                return s
            if p in ("Stack", "Concatenate"):
                if p == "Stack":
                    axes = [a for a in range(len(shape)) if shape[a] <= 3]
                    a = draw(st.sampled_from(axes))
                    sub = shape[:a] + shape[a + 1:]
                    sizes = [None] * shape[a]
                else:
                    axes = [a for a in range(len(shape)) if shape[a] >= 2]
                    a = draw(st.sampled_from(axes))
                    tot = shape[a]
                    m = draw(st.integers(2, min(3, tot)))
                    cuts = sorted(draw(st.lists(st.integers(1, tot - 1), min_size=m - 1, max_size=m - 1, unique=True)))
                    sizes = [b - a_ for a_, b in zip([0] + cuts, cuts + [tot])]
                m = len(sizes)
                j = draw(st.integers(0, m - 1))
                ch = []
                for i, sz in enumerate(sizes):
                    cs = sub if p == "Stack" else shape[:a] + (sz,) + shape[a + 1:]
                    ci = cond if (cond is not None and (i == j or draw(st.booleans()))) else None
                    ch.append(gen(cs, ci, depth - 1, R_dom, onto, exact, inv))
                rank = len(shape)  # axis refers to the OUTPUT rank for Stack, same rank for Concatenate
                ax = a - rank if draw(st.booleans()) else a
                return {"k": p, "axis": ax, "children": ch}
            if p == "Partial":
                idx = draw(_index(shape))
                cs = np.zeros(shape)[py_index(idx)].shape
                c = gen(cs, cond, depth - 1, R_dom, onto, exact, inv)
                return {"k": "Partial", "idx": idx, "shape": list(shape), "child": c}
            if p == "EmbedCondition":
                ec = draw(st.sampled_from([(1,), (2,), (3,), (), (2, 1)]))
                c = gen(shape, ec, depth - 1, R_dom, onto, exact, inv)
                return {"k": "EmbedCondition", "raw_cond": list(cond), "seed": draw(SEEDS), "child": c}
            raise AssertionError(p)

        return gen(tuple(shape), cond, max_depth, False, False, False, inv)

    return _tree()


TREE_SHAPES = st.sampled_from([(), (1,), (2,), (3,), (4,), (2, 3), (3, 2), (2, 2), (1, 3), (2, 1, 3), (2, 2, 2), (3, 1, 2)])
TREE_CONDS = st.sampled_from([None, None, None, (2,), (3,), (), (2, 3), (3, 2), (2, 2, 2)])


@st.composite
def any_tree(draw, max_depth=3, max_nodes=8, numinv=True, big=True, inv=True):
    shape = draw(TREE_SHAPES)
    cond = draw(TREE_CONDS)
    return draw(tree(shape, cond, max_depth, max_nodes, numinv, big, inv))


@st.composite
def inputs(draw, n=8):
    """Raw material for inputs: values, pool picks, condition values, scale."""
    return {
        "xraw": draw(st.lists(st.floats(-3, 3, allow_nan=False), min_size=n, max_size=n)),
        "xpick": draw(st.lists(st.integers(-6, 40), min_size=n, max_size=n)),
        "craw": draw(st.lists(st.floats(-2, 2, allow_nan=False), min_size=n, max_size=n)),
        "sigma": draw(st.sampled_from([1.0, 1.0, 3.0, 0.3])),
    }


PSCALES = st.sampled_from([0.0, 0.1, 0.3, 1.0, 1.0, 2.0])


@st.composite
def flow_spec(draw, max_dim=3, factories=None):
    from vf.build import FACTORIES

    f = draw(st.sampled_from(factories or FACTORIES))
    dim = draw(st.integers(2 if f == "coupling_flow" else 1, max_dim))
    s = {"factory": f, "dim": dim, "cond_dim": draw(st.sampled_from([None, None, 2, 1])),
         "invert": draw(st.booleans()), "layers": draw(st.integers(1, 3)), "key": draw(st.integers(0, 999)),
         "pscale": draw(st.sampled_from([0.0, 0.1, 0.3, 0.3, 1.0])), "pseed": draw(st.integers(0, 999))}
    if f in ("coupling_flow", "masked_autoregressive_flow"):
        s["transformer"] = draw(st.sampled_from([None, None, "rqs", "affine", "rqs_asym"]))
        s["width"] = draw(st.sampled_from([2, 6]))
        s["depth"] = draw(st.integers(0, 2))
    elif f == "block_neural_autoregressive_flow":
        s["depth"] = draw(st.integers(0, 2))
        s["block_dim"] = draw(st.integers(1, 3))
    elif f == "planar_flow":
        s["negative_slope"] = draw(st.sampled_from([0.1, 0.5, 1.0, None]))
        # init is 0.01*N(0,1): constraints only bite far from it.  Conditional planar flows (MLP conditioner) stay at
        # <= 0.3 so that w.u does not reach the region where 1 + w.u_hat underflows to exactly 0 (inherent, DESIGN 5)
        s["pscale"] = draw(st.sampled_from([0.0, 0.3, 1.0, 2.0, 2.0] if s["cond_dim"] is None else [0.0, 0.1, 0.3]))
    elif f == "triangular_spline_flow":
        s["knots"] = draw(st.integers(1, 6))
        s["tanh_max_val"] = draw(st.sampled_from([1.0, 3.0]))
    return s
