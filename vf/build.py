"""Deterministic builders: JSON spec -> flowjax objects.  Pure functions of the spec."""
import equinox as eqx
import jax
import jax.numpy as jnp
import jax.random as jr
import numpy as np

from flowjax import wrappers


def _is_nt(leaf):
    return isinstance(leaf, wrappers.NonTrainable)


def perturb(tree, pscale: float, pseed: int):
    """Add pscale * N(0,1) to every trainable inexact array leaf (NonTrainable subtrees excluded,
    exactly the partition the training loops use) - i.e. move the raw/unconstrained parameters the
    way an optimiser can."""
    if not pscale:
        return tree
    params, static = eqx.partition(tree, eqx.is_inexact_array, is_leaf=_is_nt)
    leaves, treedef = jax.tree_util.tree_flatten(params)
    keys = jr.split(jr.PRNGKey(int(pseed)), max(len(leaves), 1))
    new = [l + pscale * jr.normal(k, l.shape, l.dtype) for l, k in zip(leaves, keys)]
    return eqx.combine(jax.tree_util.tree_unflatten(treedef, new), static)
