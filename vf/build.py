"""Deterministic builders: JSON spec -> flowjax objects (+ a parallel Node tree used by the
reference interpreter).  Everything is a pure function of the spec (no RNG besides
jax.random keyed by integers found in the spec)."""
from __future__ import annotations

import math

import equinox as eqx
import jax
import jax.numpy as jnp
import jax.random as jr
import numpy as np

from flowjax import bijections as B
from flowjax import wrappers
from flowjax.bisection_search import AutoregressiveBisectionInverter
from vf import shim

FDT = np.float32 if shim.F32 else np.float64
R, RPOS, UNIT = 0, 1, 2  # element domain tags: reals, positive reals, (-1, 1)


def _is_nt(leaf):
    return isinstance(leaf, wrappers.NonTrainable)


def perturb(tree, pscale: float, pseed: int):
    """Add pscale * N(0,1) to every trainable inexact array leaf (NonTrainable subtrees excluded,
    exactly the partition the training loops use) - i.e. move the raw/unconstrained parameters the
    way an optimiser can."""
    if not pscale:
        return tree
    params, static = eqx.partition(tree, eqx.is_inexact_array, is_leaf=_is_nt)
    leaves, treedef = jax.tree_util.tree_flatten(params)
    keys = jr.split(jr.PRNGKey(int(pseed)), max(len(leaves), 1))
    new = [l + pscale * jr.normal(k, l.shape, l.dtype) for l, k in zip(leaves, keys)]
    return eqx.combine(jax.tree_util.tree_unflatten(treedef, new), static)


class TensorMap(eqx.Module):
    """Small nonlinear map in_shape -> out_shape used as AdditiveCondition module / embedding net."""
    W: jax.Array
    b: jax.Array
    nin: int = eqx.field(static=True)

    def __init__(self, key, in_shape, out_shape):
        k1, k2 = jr.split(key)
        self.W = jr.normal(k1, tuple(out_shape) + tuple(in_shape)) / math.sqrt(max(1, math.prod(in_shape)))
        self.b = 0.3 * jr.normal(k2, tuple(out_shape))
        self.nin = len(in_shape)

    def __call__(self, c):
        return jnp.tanh(jnp.tensordot(self.W, c, axes=self.nin) + self.b)


def tight_inverter():
    if shim.F32:
        return AutoregressiveBisectionInverter()
    return AutoregressiveBisectionInverter(tol=1e-13, max_iter=200)


class Node:
    __slots__ = ("spec", "kind", "obj", "children", "shape", "cond_shape", "dom", "cod", "cod_exact",
                 "numinv", "invertible", "aux")

    def __init__(self, spec, obj, children=(), *, shape, cond_shape, dom=None, cod=None, cod_exact=True,
                 numinv=False, invertible=True, aux=None):
        self.spec, self.kind, self.obj, self.children = spec, spec["k"], obj, list(children)
        self.shape, self.cond_shape = tuple(shape), (None if cond_shape is None else tuple(cond_shape))
        self.dom = np.zeros(self.shape, int) if dom is None else np.asarray(dom, int).reshape(self.shape)
        self.cod = np.zeros(self.shape, int) if cod is None else np.asarray(cod, int).reshape(self.shape)
        self.cod_exact, self.numinv, self.invertible, self.aux = cod_exact, numinv, invertible, aux

    def walk(self):
        yield self
        for c in self.children:
            yield from c.walk()


COMBINATORS = {"Chain", "Scan", "Vmap", "Concatenate", "Stack", "Partial", "Invert", "Reshape", "EmbedCondition"}


# ---------------------------------------------------------------------------------------------
# leaves
# ---------------------------------------------------------------------------------------------
def _key(spec, salt=0):
    return jr.PRNGKey(int(spec.get("seed", 0)) * 7 + salt)


def _rand(spec, shape, salt=0, scale=1.0):
    return scale * jr.normal(_key(spec, salt), tuple(shape))


def _pos(spec, shape, salt=0):
    return jnp.exp(0.7 * jr.normal(_key(spec, salt), tuple(shape)))


def _transformer(name):
    from flowjax.flows import _affine_with_min_scale

    if name == "affine":
        return B.Affine()
    if name == "affine_min":
        return _affine_with_min_scale()
    if name == "rqs":
        return B.RationalQuadraticSpline(knots=3, interval=2)
    if name == "rqs_asym":
        return B.RationalQuadraticSpline(knots=2, interval=(-1, 3), min_derivative=1e-2)
    raise ValueError(name)


def build_leaf(spec, pscale=0.0):
    k = spec["k"]
    shape = tuple(spec.get("shape", ()))
    cond = spec.get("cond")
    cond = None if cond is None else tuple(cond)
    kw = {}
    if k == "Affine":
        ls, ss = tuple(spec.get("loc_shape", shape)), tuple(spec.get("scale_shape", shape))
        obj = B.Affine(_rand(spec, ls, 1), _pos(spec, ss, 2))
        shape = obj.shape
        if spec.get("neg"):  # documented route: replace the scale parameter after construction
            sgn = jnp.where(jr.bernoulli(_key(spec, 3), 0.5, shape), -1.0, 1.0)
            obj = eqx.tree_at(lambda a: a.scale, obj, sgn * jnp.broadcast_to(_pos(spec, ss, 2), shape))
    elif k == "Loc":
        obj = B.Loc(_rand(spec, shape, 1))
    elif k == "Scale":
        obj = B.Scale(_pos(spec, shape, 2))
        if spec.get("neg"):
            sgn = jnp.where(jr.bernoulli(_key(spec, 3), 0.5, shape), -1.0, 1.0)
            obj = eqx.tree_at(lambda a: a.scale, obj, sgn * _pos(spec, shape, 2))
    elif k == "TriangularAffine":
        n = shape[0]
        arr = _rand(spec, (n, n), 1, 0.7)
        arr = arr.at[jnp.diag_indices(n)].set(_pos(spec, (n,), 2))
        loc = _rand(spec, () if spec.get("scalar_loc") else (n,), 3)
        lower = bool(spec.get("lower", True))
        obj = B.TriangularAffine(loc, arr, lower=lower)
        if spec.get("neg"):
            tri = jnp.tril(arr) if lower else jnp.triu(arr)
            sgn = jnp.where(jr.bernoulli(_key(spec, 4), 0.5, (n,)), -1.0, 1.0)
            tri = tri.at[jnp.diag_indices(n)].set(sgn * jnp.diag(arr))
            # a user parameterisation must itself yield a triangular matrix (docstring), also after training
            obj = eqx.tree_at(lambda a: a.triangular, obj, wrappers.Lambda(jnp.tril if lower else jnp.triu, tri))
    elif k == "Exp":
        obj = B.Exp(shape)
        kw = dict(cod=np.full(shape, RPOS))
    elif k == "SoftPlus":
        obj = B.SoftPlus(shape)
        kw = dict(cod=np.full(shape, RPOS))
    elif k == "Tanh":
        obj = B.Tanh(shape)
        kw = dict(cod=np.full(shape, UNIT))
    elif k == "LeakyTanh":
        obj = B.LeakyTanh(spec.get("max_val", 3.0), shape)
    elif k == "Identity":
        obj = B.Identity(shape)
    elif k == "Flip":
        obj = B.Flip(shape)
    elif k == "Permute":
        n = math.prod(shape)
        perm = jr.permutation(_key(spec, 1), jnp.arange(n)).reshape(shape)
        obj = B.Permute(perm)
    elif k == "AdditiveCondition":
        mod = spec.get("module", "tensor")
        if mod == "linear" and len(shape) == 1 and len(cond) == 1:
            m = eqx.nn.Linear(cond[0], shape[0], key=_key(spec, 1))
        elif mod == "mlp" and len(shape) == 1 and len(cond) == 1:
            m = eqx.nn.MLP(cond[0], shape[0], 5, 1, key=_key(spec, 1))
        else:
            m = TensorMap(_key(spec, 1), cond, shape)
        obj = B.AdditiveCondition(m, shape, cond)
    elif k == "RQS":
        iv = spec.get("interval", 2)
        iv = tuple(iv) if isinstance(iv, (list, tuple)) else iv
        obj = B.RationalQuadraticSpline(knots=int(spec.get("knots", 4)), interval=iv,
                                        min_derivative=spec.get("min_derivative", 1e-3),
                                        softmax_adjust=spec.get("softmax_adjust", 1e-2))
        shape = ()
    elif k == "Planar":
        ns = spec.get("negative_slope")
        mk = {} if cond is None else dict(width_size=5, depth=1)
        obj = B.Planar(_key(spec, 1), dim=shape[0], cond_dim=None if cond is None else cond[0],
                       negative_slope=ns, **mk)
        kw = dict(invertible=ns is not None)
    elif k == "Coupling":
        obj = B.Coupling(_key(spec, 1), transformer=_transformer(spec.get("transformer", "affine")),
                         untransformed_dim=int(spec.get("ud", shape[0] // 2)), dim=shape[0],
                         cond_dim=None if cond is None else cond[0], nn_width=int(spec.get("width", 4)),
                         nn_depth=int(spec.get("depth", 1)))
    elif k == "MAF":
        obj = B.MaskedAutoregressive(_key(spec, 1), transformer=_transformer(spec.get("transformer", "affine")),
                                     dim=shape[0], cond_dim=None if cond is None else cond[0],
                                     nn_width=int(spec.get("width", 4)), nn_depth=int(spec.get("depth", 1)))
    elif k == "BNAF":
        act = {None: None, "tanh": B.Tanh(), "softplus_fn": jax.nn.softplus}[spec.get("activation")]
        obj = B.BlockAutoregressiveNetwork(_key(spec, 1), dim=shape[0], cond_dim=None if cond is None else cond[0],
                                           depth=int(spec.get("depth", 1)), block_dim=int(spec.get("block_dim", 2)),
                                           activation=act, inverter=tight_inverter())
        # a non-onto activation (tanh) has no inverse on all of R^n: the bisection would not terminate, never call it
        kw = dict(numinv=True, invertible=act is None)
    else:
        raise ValueError(f"unknown leaf kind {k}")
    if k == "Planar" and cond is not None and "ps" not in spec:
        spec = dict(spec, ps=0.3)  # conditioner MLP: keep w.u out of the region where 1 + w.u_hat underflows to 0
    if k in ("Affine", "Scale", "TriangularAffine") and spec.get("neg"):
        obj = _perturb_keep_sign(obj, pscale * float(spec.get("ps", 1.0)), int(spec.get("seed", 0)) + 17)
    else:
        obj = perturb(obj, pscale * float(spec.get("ps", 1.0)), int(spec.get("seed", 0)) + 17)
    return Node(spec, obj, shape=shape, cond_shape=cond, **kw)


def _perturb_keep_sign(obj, pscale, pseed):
    """Perturb but keep plain (unconstrained) scale / diagonal entries away from zero."""
    new = perturb(obj, pscale, pseed)

    def fix(a, b):
        if isinstance(a, jax.Array) and jnp.issubdtype(a.dtype, jnp.inexact):
            return jnp.where(jnp.abs(b) < 0.05, a, b)
        return b

    return jax.tree_util.tree_map(fix, obj, new)


# ---------------------------------------------------------------------------------------------
# combinators
# ---------------------------------------------------------------------------------------------
def _stack_objs(objs):
    parts = [eqx.partition(o, eqx.is_array) for o in objs]
    params = jax.tree_util.tree_map(lambda *xs: jnp.stack(xs), *[p for p, _ in parts])
    return eqx.combine(params, parts[0][1])


def _merge_cond(shapes):
    s = [c for c in shapes if c is not None]
    return s[0] if s else None


def py_index(idx):
    """JSON index spec -> python/numpy index object."""
    t = idx["t"]
    if t == "int":
        return int(idx["v"])
    if t == "slice":
        return slice(*idx["v"])
    if t == "iarr":
        return np.asarray(idx["v"], int)
    if t == "barr":
        return np.asarray(idx["v"], bool)
    if t == "tuple":
        return tuple(py_index(i) for i in idx["v"])
    if t == "ellipsis":
        return Ellipsis
    raise ValueError(t)


def jax_index(idx):
    t = idx["t"]
    if t == "iarr":
        return jnp.asarray(idx["v"], int)
    if t == "barr":
        return jnp.asarray(idx["v"], bool)
    if t == "tuple":
        return tuple(jax_index(i) for i in idx["v"])
    return py_index(idx)


def build(spec, pscale=0.0):
    """Build a Node tree (with .obj the flowjax bijection) from a spec."""
    k = spec["k"]
    if k not in COMBINATORS:
        return build_leaf(spec, pscale)
    if k == "Chain":
        ch = [build(c, pscale) for c in spec["children"]]
        objs = [wrappers.NonTrainable(c.obj) if cs.get("frozen") else c.obj
                for c, cs in zip(ch, spec["children"])]
        obj = B.Chain(objs)
        exact = all(c.cod_exact for c in ch) and all(np.array_equal(a.cod, b.dom) for a, b in zip(ch, ch[1:]))
        return Node(spec, obj, ch, shape=ch[0].shape, cond_shape=_merge_cond([c.cond_shape for c in ch]),
                    dom=ch[0].dom, cod=ch[-1].cod, cod_exact=exact, numinv=any(c.numinv for c in ch),
                    invertible=all(c.invertible for c in ch))
    if k == "Scan":
        n = int(spec["n"])
        ch = [build(_reseed(spec["child"], i), pscale) for i in range(n)]
        if jax.tree_util.tree_leaves(eqx.filter(wrappers.unwrap(ch[0].obj), eqx.is_array)):
            obj = B.Scan(_stack_objs([c.obj for c in ch]))
        else:  # Scan needs array leaves to scan over; parameter-free layers are chained instead
            obj = B.Chain([c.obj for c in ch])
        return Node(spec, obj, ch, shape=ch[0].shape, cond_shape=ch[0].cond_shape, dom=ch[0].dom, cod=ch[-1].cod,
                    cod_exact=all(c.cod_exact for c in ch), numinv=ch[0].numinv, invertible=ch[0].invertible)
    if k == "Vmap":
        n = int(spec["n"])
        cax = spec.get("cond_axis")
        mapped = spec.get("mapped", False)
        if mapped:
            first = build(spec["child"], pscale)
            mapped = len(jax.tree_util.tree_leaves(eqx.filter(wrappers.unwrap(first.obj), eqx.is_array))) > 0
        if mapped:  # parameter-free children cannot be mapped (nothing to infer the axis size from)
            ch = [first] + [build(_reseed(spec["child"], i), pscale) for i in range(1, n)]
            obj = B.Vmap(_stack_objs([c.obj for c in ch]), in_axes=eqx.if_array(0), in_axes_condition=cax)
        else:
            ch = [build(spec["child"], pscale)]
            obj = B.Vmap(ch[0].obj, axis_size=n, in_axes_condition=cax)
        c0 = ch[0]
        cs = c0.cond_shape
        if cs is not None and cax is not None:
            cs = np.stack([np.zeros(cs)] * n, axis=cax).shape
        return Node(spec, obj, ch, shape=(n, *c0.shape), cond_shape=cs, dom=np.stack([c0.dom] * n),
                    cod=np.stack([c0.cod] * n), cod_exact=c0.cod_exact, numinv=c0.numinv, invertible=c0.invertible)
    if k in ("Concatenate", "Stack"):
        ch = [build(c, pscale) for c in spec["children"]]
        ax = int(spec["axis"])
        cls, npf = (B.Concatenate, np.concatenate) if k == "Concatenate" else (B.Stack, np.stack)
        obj = cls([c.obj for c in ch], axis=ax)
        dom, cod = npf([c.dom for c in ch], axis=ax), npf([c.cod for c in ch], axis=ax)
        return Node(spec, obj, ch, shape=dom.shape, cond_shape=_merge_cond([c.cond_shape for c in ch]), dom=dom,
                    cod=cod, cod_exact=all(c.cod_exact for c in ch), numinv=any(c.numinv for c in ch),
                    invertible=all(c.invertible for c in ch))
    if k == "Partial":
        c = build(spec["child"], pscale)
        shape = tuple(spec["shape"])
        obj = B.Partial(c.obj, jax_index(spec["idx"]), shape)
        dom, cod = np.zeros(shape, int), np.zeros(shape, int)
        pi = py_index(spec["idx"])
        dom[pi], cod[pi] = c.dom, c.cod
        return Node(spec, obj, [c], shape=shape, cond_shape=c.cond_shape, dom=dom, cod=cod, cod_exact=c.cod_exact,
                    numinv=c.numinv, invertible=c.invertible)
    if k == "Invert":
        c = build(spec["child"], pscale)
        return Node(spec, B.Invert(c.obj), [c], shape=c.shape, cond_shape=c.cond_shape, dom=c.cod, cod=c.dom,
                    cod_exact=True, numinv=c.numinv, invertible=True)
    if k == "Reshape":
        c = build(spec["child"], pscale)
        shape = tuple(spec["shape"])
        cs = spec.get("cond")
        cs = None if cs is None else tuple(cs)
        obj = B.Reshape(c.obj, shape if spec.get("give_shape", True) else None, cs)
        return Node(spec, obj, [c], shape=shape, cond_shape=cs if cs is not None else c.cond_shape,
                    dom=c.dom.reshape(shape), cod=c.cod.reshape(shape), cod_exact=c.cod_exact, numinv=c.numinv,
                    invertible=c.invertible)
    if k == "EmbedCondition":
        c = build(spec["child"], pscale)
        raw = tuple(spec["raw_cond"])
        net = TensorMap(_key(spec, 5), raw, c.cond_shape)
        net = perturb(net, pscale, int(spec.get("seed", 0)) + 23)
        return Node(spec, B.EmbedCondition(c.obj, net, raw), [c], shape=c.shape, cond_shape=raw, dom=c.dom,
                    cod=c.cod, cod_exact=c.cod_exact, numinv=c.numinv, invertible=c.invertible, aux=net)
    raise ValueError(k)


def _reseed(spec, i):
    """Same structure, different seeds (layer i of a Scan / mapped Vmap)."""
    if i == 0:
        return spec
    out = dict(spec)
    if "seed" in out:
        out["seed"] = int(out["seed"]) + 1009 * i
    for key in ("child",):
        if key in out:
            out[key] = _reseed(out[key], i)
    if "children" in out:
        out["children"] = [_reseed(c, i) for c in out["children"]]
    return out


# ---------------------------------------------------------------------------------------------
# reference interpreter: the combinators' DEFINITIONS over the leaves' own methods (numpy glue)
# ---------------------------------------------------------------------------------------------
class Trace:
    def __init__(self):
        self.maxmag = 0.0
        self.max_ld_per_elem = 0.0  # conditioning indicator: largest |leaf logdet| / leaf size
        self.leaf_calls = []  # (node, direction, x_in, c_in)

    def see(self, a):
        a = np.asarray(a)
        if a.size:
            m = float(np.max(np.abs(np.where(np.isfinite(a), a, 0.0))))
            self.maxmag = max(self.maxmag, m)


def ref_eval(node: Node, direction: str, x, c=None, with_ld=True, trace: Trace | None = None):
    """direction: 'fwd' | 'inv'.  Returns (y, logdet or None) as numpy float arrays."""
    x = np.asarray(x)
    k = node.kind
    tr = trace
    if tr is not None:
        tr.see(x)

    def leafcall(n, d, xx, cc):
        cc = None if n.cond_shape is None else jnp.asarray(cc)
        if tr is not None:
            tr.leaf_calls.append((n, d, np.asarray(xx), None if cc is None else np.asarray(cc)))
        o = n.obj
        if with_ld:
            y, ld = (o.transform_and_log_det if d == "fwd" else o.inverse_and_log_det)(jnp.asarray(xx), cc)
            if tr is not None and np.isfinite(float(ld)):
                tr.max_ld_per_elem = max(tr.max_ld_per_elem, abs(float(ld)) / max(1, np.asarray(xx).size))
                tr.max_ld_leaf = max(getattr(tr, "max_ld_leaf", 0.0), abs(float(ld)))
            return np.asarray(y), float(ld)
        y = (o.transform if d == "fwd" else o.inverse)(jnp.asarray(xx), cc)
        return np.asarray(y), None

    def add(a, b):
        return None if a is None or b is None else a + b

    def child_cond(ch, cc):
        return cc if ch.cond_shape is not None else None

    if k not in COMBINATORS:
        y, ld = leafcall(node, direction, x, c)
    elif k in ("Chain", "Scan"):
        order = node.children if direction == "fwd" else list(reversed(node.children))
        y, ld = x, (0.0 if with_ld else None)
        for ch in order:
            y, l = ref_eval(ch, direction, y, child_cond(ch, c), with_ld, tr)
            ld = add(ld, l)
    elif k == "Vmap":
        n = node.shape[0]
        cax = node.spec.get("cond_axis")
        ys, ld = [], (0.0 if with_ld else None)
        for i in range(n):
            ch = node.children[i] if len(node.children) > 1 else node.children[0]
            ci = None
            if ch.cond_shape is not None:
                ci = np.take(np.asarray(c), i, axis=cax) if cax is not None else c
            yi, l = ref_eval(ch, direction, x[i], ci, with_ld, tr)
            ys.append(yi)
            ld = add(ld, l)
        y = np.stack(ys, axis=0)
    elif k == "Concatenate":
        ax = int(node.spec["axis"])
        sizes = [ch.shape[ax] for ch in node.children]
        parts = np.split(x, np.cumsum(sizes)[:-1], axis=ax)
        ys, ld = [], (0.0 if with_ld else None)
        for ch, p in zip(node.children, parts):
            yi, l = ref_eval(ch, direction, p, child_cond(ch, c), with_ld, tr)
            ys.append(yi)
            ld = add(ld, l)
        y = np.concatenate(ys, axis=ax)
    elif k == "Stack":
        ax = int(node.spec["axis"])
        ys, ld = [], (0.0 if with_ld else None)
        for i, ch in enumerate(node.children):
            yi, l = ref_eval(ch, direction, np.take(x, i, axis=ax), child_cond(ch, c), with_ld, tr)
            ys.append(yi)
            ld = add(ld, l)
        y = np.stack(ys, axis=ax)
    elif k == "Partial":
        pi = py_index(node.spec["idx"])
        ch = node.children[0]
        yi, ld = ref_eval(ch, direction, x[pi], child_cond(ch, c), with_ld, tr)
        y = np.array(x, copy=True)
        y[pi] = yi
    elif k == "Invert":
        ch = node.children[0]
        y, ld = ref_eval(ch, "inv" if direction == "fwd" else "fwd", x, c, with_ld, tr)
    elif k == "Reshape":
        ch = node.children[0]
        cc = None if ch.cond_shape is None else np.asarray(c).reshape(ch.cond_shape)
        y, ld = ref_eval(ch, direction, x.reshape(ch.shape), cc, with_ld, tr)
        y = y.reshape(node.shape)
    elif k == "EmbedCondition":
        ch = node.children[0]
        y, ld = ref_eval(ch, direction, x, np.asarray(node.aux(jnp.asarray(c))), with_ld, tr)
    else:
        raise ValueError(k)
    if tr is not None:
        tr.see(y)
    return y, ld


# ---------------------------------------------------------------------------------------------
# inputs
# ---------------------------------------------------------------------------------------------
def leaf_points(node: Node):
    """Scalars the implementation of this leaf compares against (plus float neighbours)."""
    k, pts = node.kind, []
    if k == "RQS":
        o = wrappers.unwrap(node.obj)
        for v in list(np.asarray(o.x_pos)) + list(np.asarray(o.y_pos)):
            pts += [float(v)]
        a, b = float(o.interval[0]), float(o.interval[1])
        pts += [a, b, a - 1.0, b + 1.0, a - 1e3, b + 1e3]
    elif k == "LeakyTanh":
        m = float(node.obj.max_val)
        pts += [m, -m, math.tanh(m), -math.tanh(m), 1.0, -1.0]
    pts += [0.0]
    if k not in ("Exp",):  # large magnitudes where the map does not overflow
        pts += [1e3, -1e3]
    out = []
    for v in pts:
        v = float(FDT(v))
        out += [v, float(np.nextafter(FDT(v), FDT(np.inf))), float(np.nextafter(FDT(v), FDT(-np.inf)))]
    return out


def tree_points(node: Node):
    pts = []
    for n in node.walk():
        if n.kind in ("RQS", "LeakyTanh"):
            pts += leaf_points(n)
    return pts or [0.0, 1.0, -1.0]


def to_domain(z, tags):
    """Map arbitrary reals into the tagged domain elementwise (identity where already inside)."""
    z = np.asarray(z, FDT)
    tags = np.asarray(tags)
    pos = np.where(z > 0, z, np.exp(np.clip(z, -30, 0)) * 0.5 + 1e-3)
    unit = np.where(np.abs(z) < 1, z, np.tanh(z) * 0.999)
    return np.where(tags == R, z, np.where(tags == RPOS, pos, unit)).astype(FDT)


def make_input(raw, picks, pool, shape, tags, sigma=1.0):
    n = int(np.prod(shape)) if len(shape) else 1
    vals = []
    for i in range(n):
        r = raw[i % len(raw)] * sigma
        p = picks[i % len(picks)] if picks else -1
        vals.append(pool[p % len(pool)] if (p >= 0 and pool) else r)
    return to_domain(np.asarray(vals, FDT).reshape(shape), tags)


def make_cond(raw, shape):
    if shape is None:
        return None
    n = int(np.prod(shape)) if len(shape) else 1
    return np.asarray([raw[i % len(raw)] for i in range(n)], FDT).reshape(shape)


# ---------------------------------------------------------------------------------------------
# premade flows
# ---------------------------------------------------------------------------------------------
FACTORIES = ["coupling_flow", "masked_autoregressive_flow", "block_neural_autoregressive_flow", "planar_flow",
             "triangular_spline_flow"]


def build_flow(spec, base=None):
    """spec: factory, dim, cond_dim, invert, layers, transformer, key, pscale, pseed, negative_slope."""
    from flowjax import flows
    from flowjax.distributions import StandardNormal

    f = spec["factory"]
    dim = int(spec["dim"])
    cond = spec.get("cond_dim")
    base = StandardNormal((dim,)) if base is None else base
    kw = dict(base_dist=base, cond_dim=cond, flow_layers=int(spec.get("layers", 2)), invert=bool(spec["invert"]))
    key = jr.PRNGKey(int(spec.get("key", 0)))
    if f in ("coupling_flow", "masked_autoregressive_flow"):
        t = spec.get("transformer")
        if t is not None:
            kw["transformer"] = _transformer(t)
        kw.update(nn_width=int(spec.get("width", 6)), nn_depth=int(spec.get("depth", 1)))
    elif f == "block_neural_autoregressive_flow":
        kw.update(nn_depth=int(spec.get("depth", 1)), nn_block_dim=int(spec.get("block_dim", 3)))
        if spec.get("tight", True):
            kw["inverter"] = tight_inverter()
    elif f == "planar_flow":
        kw["negative_slope"] = spec.get("negative_slope", 0.1)
        if cond is not None:
            kw.update(width_size=5, depth=1)
    elif f == "triangular_spline_flow":
        kw.update(knots=int(spec.get("knots", 4)), tanh_max_val=float(spec.get("tanh_max_val", 3.0)))
    flow = getattr(flows, f)(key, **kw)
    return perturb(flow, float(spec.get("pscale", 0.0)), int(spec.get("pseed", 0)))
