"""C06 - batched calls equal elementwise unbatched calls with NumPy broadcasting.

Subjects: (i) a TAGGING distribution - a user subclass of AbstractDistribution (the documented extension
point) whose _sample returns the key words and the condition it was handed and whose _log_prob is an
injective function of (x, condition); (ii) real distributions whose values depend on x and the
condition (Transformed(base, nonlinear AdditiveCondition), conditional coupling / MAF flows, mixtures)."""
from typing import ClassVar

import equinox as eqx
import jax
import jax.numpy as jnp
import jax.random as jr
import numpy as np
from hypothesis import strategies as st

from flowjax import bijections as B
from flowjax import distributions as D
from vf import build as bd
from vf.core import Violation, lib_call, run_hypothesis


class Tagging(D.AbstractDistribution):
    shape: tuple
    cond_shape: tuple | None

    def _coef(self, n, salt):
        return jnp.asarray(np.sin(np.arange(1, n + 1) * (1.37 + salt)) + 1.5)

    def _log_prob(self, x, condition=None):
        v = jnp.sum(self._coef(max(1, int(np.prod(self.shape))), 0.0) * jnp.ravel(x))
        if condition is not None and self.cond_shape is not None:
            v = v + 1000.0 * jnp.sum(self._coef(max(1, int(np.prod(self.cond_shape))), 0.7) * jnp.ravel(condition))
        # zero density on part of the space (x[0] < -1.5): -inf must come through every batched / unbatched path unchanged
        return jnp.where(jnp.ravel(x)[0] < -1.5, -jnp.inf, v)

    def _sample(self, key, condition=None):
        n = max(1, int(np.prod(self.shape)))
        kw = jnp.asarray(jr.key_data(key) if jnp.issubdtype(key.dtype, jax.dtypes.prng_key) else key, float).reshape(-1)
        base = kw[0] * 4294967296.0 + kw[1]  # both key words, exactly representable in float64
        out = base + jnp.arange(n, dtype=float) * 0.0
        if condition is not None and self.cond_shape is not None and n >= 2:
            out = out.at[-1].set(jnp.sum(self._coef(max(1, int(np.prod(self.cond_shape))), 0.7) * jnp.ravel(condition)))
        return out.reshape(self.shape)


def real_dist(kind, shape, cond, seed):
    key = jr.PRNGKey(seed)
    if kind == "additive":
        base = D.Normal(jnp.zeros(shape), jnp.ones(shape) * 1.3)
        node = bd.build_leaf({"k": "AdditiveCondition", "shape": list(shape), "cond": list(cond), "seed": seed, "module": "tensor"})
        return D.Transformed(base, node.obj)
    if kind in ("coupling", "maf"):
        from flowjax.flows import coupling_flow, masked_autoregressive_flow
        f = coupling_flow if kind == "coupling" else masked_autoregressive_flow
        d = f(key, base_dist=D.StandardNormal(shape), cond_dim=cond[0], flow_layers=2, nn_width=4)
        return bd.perturb(d, 0.3, seed)
    if kind == "bounded":  # bounded support, conditional: log_prob is -inf for part of the generated inputs
        base = D.Uniform(-jnp.ones(shape) * 1.2, jnp.ones(shape) * 1.5)
        node = bd.build_leaf({"k": "AdditiveCondition", "shape": list(shape), "cond": list(cond), "seed": seed, "module": "tensor"})
        return D.Transformed(base, node.obj)
    if kind == "condbase":  # a CONDITIONAL base distribution under an unconditional bijection
        inner = real_dist("additive", shape, cond, seed)
        return D.Transformed(inner, B.Affine(jnp.full(shape, 0.3), jnp.full(shape, 1.7)))
    if kind == "lognormal":
        return D.LogNormal(jnp.zeros(shape) + 0.2, jnp.ones(shape) * 0.7)
    if kind == "mixture":
        comp = eqx.filter_vmap(lambda m: D.Normal(m * jnp.ones(shape), 0.5 + jnp.ones(shape) * 0.1 * m))(jnp.arange(3.0))
        return D.VmapMixture(comp, jnp.asarray([1.0, 2.0, 3.0]))
    raise ValueError(kind)


def vals(raw, shape, scale=1.0):
    n = int(np.prod(shape)) if len(shape) else 1
    return (np.asarray([raw[i % len(raw)] + 0.01 * (i // len(raw)) for i in range(n)], np.float64) * scale).reshape(shape)


def oracle(c, ctx):
    ctx.evaluated()
    shape, cond = tuple(c["shape"]), (None if c["cond"] is None else tuple(c["cond"]))
    xb, cb, ss = tuple(c["x_batch"]), tuple(c["c_batch"]), tuple(c["sample_shape"])
    kind = c["dist"]
    dist = Tagging(shape, cond) if kind == "tagging" else real_dist(kind, shape, cond, int(c["seed"]))
    if cond is None:
        cb = ()
    X = vals(c["xraw"], xb + shape)
    C = None if cond is None else vals(c["craw"], cb + cond, 0.7)
    Cj = None if C is None else jnp.asarray(C)
    spec = f"dist={kind} shape={shape} cond={cond} x_batch={xb} c_batch={cb} sample_shape={ss}"
    # ---------------- log_prob: broadcast like numpy, every element equals the unbatched call ------
    out_b = np.broadcast_shapes(xb, cb)
    lp = np.asarray(lib_call("C06|log_prob", dist.log_prob, jnp.asarray(X), Cj))
    if lp.shape != out_b:
        raise Violation("C06|log_prob|shape", f"{lp.shape} expected {out_b}; {spec}")
    ix = np.broadcast_to(np.arange(int(np.prod(xb)) if xb else 1).reshape(xb), out_b)
    ic = np.broadcast_to(np.arange(int(np.prod(cb)) if cb else 1).reshape(cb), out_b)
    Xf = X.reshape((-1,) + shape)
    Cf = None if C is None else C.reshape((-1,) + cond)
    from flowjax.wrappers import unwrap
    udist = unwrap(dist)
    for idx in list(np.ndindex(out_b))[:24]:
        xi = Xf[ix[idx]]
        ci = None if Cf is None else jnp.asarray(Cf[ic[idx]])
        want = float(dist.log_prob(jnp.asarray(xi), ci))
        got = float(lp[idx])
        core = float(udist._log_prob(jnp.asarray(xi), ci))  # the per-element definition (the documented extension point)
        core = -np.inf if core != core else core  # log_prob documents nothing else about NaN than mapping it to -inf (C18)
        if not (want == core or abs(want - core) <= 1e-11 * (1 + abs(core))):
            raise Violation("C06|log_prob|unbatched_vs_definition", f"unbatched log_prob {want!r}, _log_prob of the unwrapped "
                                                                    f"distribution {core!r} (x slice {ix[idx]}, condition slice {ic[idx]}); {spec}")
        if np.isneginf(want) or np.isneginf(got):
            ctx.hist("neg_inf_element", str(np.isneginf(want) and np.isneginf(got)))
        if not (got == want or abs(got - want) <= 1e-11 * (1 + abs(want))):
            raise Violation("C06|log_prob|elementwise", f"element {idx}: batched {got!r} unbatched {want!r} "
                                                        f"(x slice {ix[idx]}, condition slice {ic[idx]}); {spec}")
    # ---------------- sample / sample_and_log_prob ----------------------------------------------------
    key = jr.PRNGKey(int(c["key"]))
    S = np.asarray(lib_call("C06|sample", dist.sample, key, ss, Cj))
    want_shape = ss + cb + shape
    if S.shape != want_shape:
        raise Violation("C06|sample|shape", f"{S.shape} expected sample_shape+cond_batch+shape={want_shape}; {spec}")
    S2 = np.asarray(lib_call("C06|sample", dist.sample, key, ss, Cj))
    if not np.array_equal(S, S2):
        raise Violation("C06|sample|same_key_differs", spec)
    S3, L3 = lib_call("C06|sample_and_log_prob", dist.sample_and_log_prob, key, ss, Cj)
    S3, L3 = np.asarray(S3), np.asarray(L3)
    if S3.shape != want_shape or L3.shape != ss + cb:
        raise Violation("C06|sample_and_log_prob|shape", f"{S3.shape},{L3.shape} expected {want_shape},{ss + cb}; {spec}")
    nb = int(np.prod(ss + cb)) if ss + cb else 1
    Sf, S3f, L3f = S.reshape((nb,) + shape), S3.reshape((nb,) + shape), L3.reshape(nb)
    icb = np.broadcast_to(np.arange(int(np.prod(cb)) if cb else 1).reshape(cb), ss + cb).reshape(-1) if cond is not None else None
    for j in list(range(nb))[:24]:
        ci = None if Cf is None else jnp.asarray(Cf[icb[j]])
        want = float(dist.log_prob(jnp.asarray(S3f[j]), ci))
        if not (float(L3f[j]) == want or abs(float(L3f[j]) - want) <= 1e-9 * (1 + abs(want))):
            raise Violation("C06|sample_and_log_prob|logprob_of_sample", f"element {j}: returned {float(L3f[j])!r}, "
                                                                         f"log_prob(sample, condition slice) = {want!r}; {spec}")
    if kind == "tagging":
        n = max(1, int(np.prod(shape)))
        flat = Sf.reshape(nb, n)
        keys_seen = flat[:, 0]
        if nb > 1 and len(set(keys_seen.tolist())) != nb:
            raise Violation("C06|sample|key_shared", f"{nb} elements received only {len(set(keys_seen.tolist()))} distinct keys; {spec}")
        if cond is not None and n >= 2:
            coef = np.sin(np.arange(1, int(np.prod(cond) if cond else 1) + 1) * (1.37 + 0.7)) + 1.5
            for j in range(nb):
                want = float(np.sum(coef * Cf[icb[j]].reshape(-1)))
                if abs(flat[j, -1] - want) > 1e-9 * (1 + abs(want)):
                    raise Violation("C06|sample|condition_misaligned", f"element {j} received a condition other than slice {icb[j]}; {spec}")
    else:
        flat = Sf.reshape(nb, -1)
        if nb > 1 and len({tuple(r) for r in flat.tolist()}) != nb:
            raise Violation("C06|sample|repeated_draws", f"{nb} elements, {len({tuple(r) for r in flat.tolist()})} distinct draws; {spec}")
    bc_axis = (len(xb) != len(cb) or any(a != b for a, b in zip(xb, cb))) and (np.prod(out_b) > 1 if out_b else False)
    if (bc_axis or (nb > 1 and cond is not None)) and (cond is not None):
        ctx.mark_nontrivial(c)
    ctx.hist("dist", kind)
    ctx.hist("broadcast", f"x{len(xb)}c{len(cb)}")
    if ctx.evaluations % 29 == 1:
        ctx.sample(c)


def replay(spec, ctx):
    oracle(spec.get("spec", spec) if "dist" not in spec else spec, ctx)


def bcast_pair(draw):
    """Two leading batch shapes that broadcast together (size-1 axes, missing axes)."""
    full = draw(st.sampled_from([(), (3,), (2, 3), (4, 1), (1, 3), (2, 1, 3), (4, 4), (3, 1)]))
    def sub(s):
        s = list(s)
        s = s[draw(st.integers(0, len(s))):]
        return tuple(1 if draw(st.integers(0, 3)) == 0 else d for d in s)
    a, b = sub(full), sub(full)
    if draw(st.booleans()):
        a = full
    else:
        b = full
    return a, b


@st.composite
def cases(draw):
    kind = draw(st.sampled_from(["tagging", "tagging", "tagging", "additive", "coupling", "maf", "mixture", "bounded", "lognormal", "condbase", "condbase"]))
    if kind == "tagging":
        shape = draw(st.sampled_from([(), (2,), (3,), (2, 2), (1,)]))
        cond = draw(st.sampled_from([None, (), (2,), (3,), (2, 3), (1,)]))
    elif kind in ("additive", "bounded", "condbase"):
        shape = draw(st.sampled_from([(), (3,), (2, 2)]))
        cond = draw(st.sampled_from([(), (2,), (2, 2)]))
    elif kind in ("coupling", "maf"):
        shape, cond = (draw(st.sampled_from([2, 3])),), (draw(st.sampled_from([1, 2])),)
    else:
        shape, cond = draw(st.sampled_from([(), (2,)])), None
    xb, cb = bcast_pair(draw)
    return {"dist": kind, "shape": list(shape), "cond": None if cond is None else list(cond), "x_batch": list(xb),
            "c_batch": list(cb), "sample_shape": list(draw(st.sampled_from([(), (2,), (3,), (2, 2), (1,)]))),
            "xraw": draw(st.lists(st.floats(-2, 2, allow_nan=False), min_size=7, max_size=7)),
            "craw": draw(st.lists(st.floats(-2, 2, allow_nan=False), min_size=5, max_size=5)),
            "key": draw(st.integers(0, 10**6)), "seed": draw(st.integers(0, 999))}


def run(ctx):
    q = ctx.tier == "quick"
    run_hypothesis(ctx, cases(), oracle, 50 if q else 400, "C06")
