"""C17 - loss functions compute their defining estimators.

ML: value vs -mean(public log_prob) with wrappers (and frozen leaves) left in place.
ELBO: value vs mean(lp - target(s)) from the public sample_and_log_prob with the same key (target
evaluated ONE SAMPLE AT A TIME), equal with/without stick-the-landing, and
grad(plain) - grad(STL) == the score term mean_i d/dtheta log q_theta(s_i)|_{s_i fixed}.
Contrastive: a probe distribution whose logits are powers of a base makes the loss VALUE reveal the
exact multiset of contrastive rows used for every row; then the value for real distributions is
compared with the softmax cross-entropy over those index sets."""
import equinox as eqx
import jax
import jax.numpy as jnp
import jax.random as jr
import numpy as np
from hypothesis import strategies as st
from jax.flatten_util import ravel_pytree
from scipy.special import logsumexp

from flowjax import distributions as D
from flowjax import wrappers
from flowjax.train.losses import ContrastiveLoss, ElboLoss, MaximumLikelihoodLoss
from vf import build as bd
from vf.core import Violation, expect_raises, lib_call, run_hypothesis


def part(d):
    return eqx.partition(d, eqx.is_inexact_array, is_leaf=lambda l: isinstance(l, wrappers.NonTrainable))


def make_dist(c):
    k, dim, cond = c["dist"], int(c["dim"]), c.get("cond")
    spec = {"factory": {"coupling": "coupling_flow", "maf": "masked_autoregressive_flow", "planar": "planar_flow",
                        "bnaf": "block_neural_autoregressive_flow", "tri": "triangular_spline_flow"}.get(k),
            "dim": dim, "cond_dim": cond, "invert": bool(c.get("invert", True)), "layers": 2, "key": int(c["seed"]),
            "pscale": float(c["pscale"]), "pseed": int(c["seed"]) + 1, "negative_slope": 0.5, "width": 4, "tight": False}
    if k == "normal":
        d = D.Normal(jnp.arange(dim) * 0.3, 0.5 + jnp.arange(dim) * 0.2)
        return bd.perturb(d, float(c["pscale"]), int(c["seed"]))
    if k == "additive":
        # "sharp": an over-confident estimator - logits of mismatched rows differ by thousands of nats, the regime
        # where a softmax cross-entropy must be evaluated stably (max-subtraction)
        base = D.Normal(jnp.zeros(dim), jnp.full(dim, 0.02 if c.get("sharp") else 1.2))
        node = bd.build_leaf({"k": "AdditiveCondition", "shape": [dim], "cond": [cond], "seed": int(c["seed"]), "module": "mlp"},
                             float(c["pscale"]))
        return D.Transformed(base, node.obj)
    d = bd.build_flow(spec)
    if c.get("freeze"):
        d = eqx.tree_at(lambda t: t.base_dist, d, replace_fn=wrappers.non_trainable)
    return d


def data(c, n, dim, cond):
    x = np.asarray(jr.normal(jr.PRNGKey(int(c["seed"]) + 7), (n, dim)), np.float64) * 1.3
    cc = None if cond is None else np.asarray(jr.normal(jr.PRNGKey(int(c["seed"]) + 8), (n, cond)), np.float64)
    return jnp.asarray(x), (None if cc is None else jnp.asarray(cc))


# ------------------------------------------------------------------------------------------------
def oracle_ml(c, ctx):
    d = make_dist(c)
    n = int(c["batch"])
    x, cc = data(c, n, int(c["dim"]), c.get("cond"))
    p, s = part(d)
    got = float(lib_call("C17|ML", MaximumLikelihoodLoss(), p, s, x, cc))
    want = -float(np.mean(np.asarray(d.log_prob(x, cc), np.float64)))
    if not abs(got - want) <= 1e-9 * (1 + abs(want)):
        raise Violation("C17|ML|value", f"loss {got!r} vs -mean(log_prob) {want!r}; {c}")
    if float(c["pscale"]) > 0:
        ctx.mark_nontrivial(c)


def oracle_elbo(c, ctx):
    d = make_dist(dict(c, cond=None))
    dim, n = int(c["dim"]), int(c["num_samples"])
    mu = jnp.asarray(np.linspace(-0.5, 0.7, dim))
    if c["target"] == "quadratic":
        target = lambda x: -0.5 * jnp.sum((x - mu) ** 2)  # noqa: E731  (defined for a single point)
    else:
        target = lambda x: jnp.logaddexp(-0.5 * jnp.sum((x - 1.0) ** 2), -0.5 * jnp.sum((x + 1.5) ** 2) - 0.3)  # noqa: E731
    key = jr.PRNGKey(int(c["key"]))
    p, s = part(d)
    plain = ElboLoss(target, n, stick_the_landing=False)
    stl = ElboLoss(target, n, stick_the_landing=True)
    v_plain = float(lib_call("C17|ELBO", plain, p, s, key))
    v_stl = float(lib_call("C17|ELBO|stl", stl, p, s, key))
    samples, lp = d.sample_and_log_prob(key, (n,))
    t = np.asarray([float(target(samples[i])) for i in range(n)])
    want = float(np.mean(np.asarray(lp, np.float64) - t))
    numinv = c["dist"] == "bnaf"
    tol = (1e-5 if numinv else 1e-9) * (1 + abs(want))
    if not abs(v_plain - want) <= tol:
        raise Violation("C17|ELBO|value", f"loss {v_plain!r} vs mean(log q - target) {want!r}; {c}")
    if not abs(v_stl - v_plain) <= (1e-5 if numinv else 1e-9) * (1 + abs(want)):
        raise Violation("C17|ELBO|stick_the_landing_value", f"{v_stl!r} vs {v_plain!r}; {c}")
    # gradients: plain - STL == score term
    if not numinv:
        g_plain = ravel_pytree(eqx.filter_grad(lambda pp: plain(pp, s, key))(p))[0]
        g_stl = ravel_pytree(eqx.filter_grad(lambda pp: stl(pp, s, key))(p))[0]
        fixed = jax.lax.stop_gradient(samples)
        score = ravel_pytree(eqx.filter_grad(lambda pp: jnp.mean(eqx.combine(pp, s).log_prob(fixed)))(p))[0]
        diff = np.asarray(g_plain - g_stl - score, np.float64)
        sc = 1 + float(jnp.max(jnp.abs(g_plain))) + float(jnp.max(jnp.abs(score)))
        if not np.all(np.abs(diff) <= 1e-7 * sc):
            raise Violation("C17|ELBO|stl_gradient", f"grad(plain)-grad(STL) != score term (max dev {np.max(np.abs(diff)):.3e}); {c}")
        # pathwise gradient through my own composition
        def pathwise(pp):
            dd = eqx.combine(pp, s)
            sm = dd.sample(key, (n,))
            frozen = eqx.combine(jax.lax.stop_gradient(pp), s)
            return jnp.mean(frozen.log_prob(sm) - jax.vmap(target)(sm))
        g_path = ravel_pytree(eqx.filter_grad(pathwise)(p))[0]
        if not np.all(np.abs(np.asarray(g_stl - g_path)) <= 1e-7 * sc):
            raise Violation("C17|ELBO|stl_pathwise", f"STL gradient != pathwise gradient; {c}")
        if float(jnp.max(jnp.abs(score))) > 1e-6 and n > 1:
            ctx.mark_nontrivial(c)


# ------------------------------- contrastive ------------------------------------------------------
class Probe(D.AbstractDistribution):
    """log q(x | c): row r (c == r) gets logit x*log(base); every other row gets 0 on the diagonal, -1e4 off it."""
    shape: tuple = ()
    cond_shape: tuple = ()
    r: int = 0
    logb: float = 1.0

    def _log_prob(self, x, condition=None):
        return jnp.where(jnp.round(condition) == self.r, x * self.logb, jnp.where(jnp.round(condition) == jnp.round(x), 0.0, -1e4))

    def _sample(self, key, condition=None):
        return jnp.zeros(())


class Flat(D.AbstractDistribution):
    shape: tuple = ()
    cond_shape = None

    def _log_prob(self, x, condition=None):
        return jnp.zeros(())

    def _sample(self, key, condition=None):
        return jnp.zeros(())


def decode_sets(batch, nc, key):
    """For every row r: the multiset of contrastive rows, decoded from loss values only."""
    base = nc + 2
    x = jnp.arange(batch, dtype=float)
    sets = []
    for r in range(batch):
        pr = Probe((), (), r, float(np.log(base)))
        p, s = eqx.partition(pr, eqx.is_inexact_array)
        loss = float(lib_call("C17|contrastive|probe", ContrastiveLoss(Flat(), nc), p, s, x, x, key))
        tot = (np.exp(loss * batch) - 1.0) * float(base) ** r  # sum_{j in S_r} base^j
        digits, rem = [], int(round(tot))
        if abs(tot - rem) > 1e-6 * max(1.0, tot):
            raise Violation("C17|contrastive|probe_decode", f"row {r}: loss {loss!r} does not decode (batch={batch}, n={nc})")
        for j in range(batch):
            digits.append(rem % base)
            rem //= base
        if rem:
            raise Violation("C17|contrastive|probe_decode", f"row {r}: overflow decoding {tot}")
        sets.append(digits)
    return sets


def oracle_contrastive(c, ctx):
    batch, nc = int(c["batch"]), int(c["n_contrastive"])
    key = jr.PRNGKey(int(c["key"]))
    if nc >= batch:
        expect_raises("C17|contrastive|n_contrastive>=batch", lambda: ContrastiveLoss(Flat(), nc)(
            *eqx.partition(Probe(), eqx.is_inexact_array), jnp.arange(batch, dtype=float), jnp.arange(batch, dtype=float), key))
        return
    sets = decode_sets(batch, nc, key)
    for r, digits in enumerate(sets):
        if digits[r] != 0 or sum(digits) != nc or max(digits) > 1:
            raise Violation("C17|contrastive|index_sets", f"row {r} used contrastive rows with multiplicities {digits} "
                                                          f"(expected {nc} distinct rows != {r}); batch={batch}")
    # value for a real conditional distribution
    d = make_dist(c)
    dim, cond = int(c["dim"]), int(c["cond"])
    x, cc = data(c, batch, dim, cond)
    prior = D.Normal(jnp.zeros(dim), jnp.full(dim, 2.0))
    p, s = part(d)
    got = float(lib_call("C17|contrastive", ContrastiveLoss(prior, nc), p, s, x, cc, key))
    rows = []
    for i in range(batch):
        js = [i] + [j for j in range(batch) if sets[i][j]]
        logits = np.asarray([float(d.log_prob(x[j], cc[i])) - float(prior.log_prob(x[j])) for j in js])
        rows.append(-(logits[0] - logsumexp(logits)))
    want = float(np.mean(rows))
    if not abs(got - want) <= 1e-8 * (1 + abs(want)):
        raise Violation("C17|contrastive|value", f"loss {got!r} vs softmax cross-entropy over the decoded index sets {want!r}; {c}")
    if got < -1e-12:
        raise Violation("C17|contrastive|negative", f"loss {got!r}")
    if nc < batch - 1:
        ctx.mark_nontrivial(c)


def oracle(c, ctx):
    ctx.evaluated()
    {"ml": oracle_ml, "elbo": oracle_elbo, "contrastive": oracle_contrastive}[c["loss"]](c, ctx)
    ctx.hist("loss", c["loss"])
    ctx.hist("dist", c["dist"])
    if ctx.evaluations % 17 == 1:
        ctx.sample(c)


def replay(spec, ctx):
    oracle(spec.get("spec", spec) if "loss" not in spec else spec, ctx)


@st.composite
def cases(draw):
    loss = draw(st.sampled_from(["ml", "elbo", "contrastive", "contrastive"]))
    c = {"loss": loss, "seed": draw(st.integers(0, 999)), "key": draw(st.integers(0, 10**6)),
         "pscale": draw(st.sampled_from([0.0, 0.1, 0.3, 0.5])), "dim": draw(st.integers(1, 3)),
         "freeze": draw(st.booleans()), "invert": draw(st.booleans())}
    if loss == "ml":
        c["dist"] = draw(st.sampled_from(["normal", "additive", "coupling", "maf", "planar", "tri", "bnaf"]))
        c["cond"] = draw(st.sampled_from([None, 2])) if c["dist"] not in ("normal",) else None
        if c["dist"] == "additive":
            c["cond"] = 2
        c["batch"] = draw(st.integers(2, 12))
    elif loss == "elbo":
        c["dist"] = draw(st.sampled_from(["normal", "coupling", "maf", "planar", "tri", "bnaf"]))
        c["num_samples"] = draw(st.integers(1, 50))
        c["target"] = draw(st.sampled_from(["quadratic", "mixture"]))
    else:
        c["dist"] = draw(st.sampled_from(["additive", "coupling", "maf"]))
        c["cond"] = 2
        c["batch"] = draw(st.integers(2, 8))
        c["n_contrastive"] = draw(st.integers(1, c["batch"]))
        c["sharp"] = draw(st.integers(0, 3)) == 0
        if c["sharp"]:
            c["dist"] = "additive"
    if c["dist"] == "coupling":
        c["dim"] = max(2, c["dim"])
    return c


def run(ctx):
    q = ctx.tier == "quick"
    run_hypothesis(ctx, cases(), oracle, 28 if q else 200, "C17")
