"""C08 - combinators mean what their definitions say, for every shape and axis.

Generated expression trees (vf.gen.tree) are built twice: as flowjax combinators, and as a Node
tree evaluated by the reference interpreter (vf.build.ref_eval) that only calls the LEAF objects'
methods and glues them with numpy split/stack/concatenate/take/index-assignment semantics."""
import equinox as eqx
import jax
import jax.numpy as jnp
import numpy as np
from hypothesis import strategies as st

from flowjax import bijections as B
from flowjax.distributions import StandardNormal, Transformed
from vf import build as bd
from vf import gen
from vf.core import Violation, lib_call, run_hypothesis, spec_hash

VTOL, LTOL = 1e-8, 1e-8
ILL_LD = 15.0


def _close(a, b, scale, tol):
    a, b = np.asarray(a, np.float64), np.asarray(b, np.float64)
    if a.shape != b.shape:
        return np.inf
    if not (np.all(np.isfinite(a)) and np.all(np.isfinite(b))):
        return 0.0 if np.array_equal(np.isfinite(a), np.isfinite(b)) and np.allclose(a[np.isfinite(a)], b[np.isfinite(b)]) else np.inf
    return float(np.max(np.abs(a - b), initial=0.0)) / (tol * (1 + scale))


def _kinds(node):
    return [n.kind for n in node.walk()]


def _has_neg_axis(spec):
    if isinstance(spec, dict):
        if spec.get("k") in ("Stack", "Concatenate") and spec.get("axis", 0) < 0:
            return True
        if spec.get("k") == "Vmap" and (spec.get("cond_axis") is not None):
            return True
        return any(_has_neg_axis(v) for v in spec.values())
    if isinstance(spec, list):
        return any(_has_neg_axis(v) for v in spec)
    return False


def compare(node, x, c):
    """All four methods + declared shapes of node.obj against the reference interpreter.
    Returns (status, payload): ('ok', dict) | ('ill', None) | ('bad', (name, detail))."""
    obj, top = node.obj, node.kind
    if tuple(obj.shape) != node.shape:
        return "bad", ("shape", f"declared shape {obj.shape}, definition gives {node.shape}")
    if (None if obj.cond_shape is None else tuple(obj.cond_shape)) != node.cond_shape:
        return "bad", ("cond_shape", f"declared cond_shape {obj.cond_shape}, definition gives {node.cond_shape}")
    cj = None if c is None else jnp.asarray(c)
    tr = bd.Trace()
    y_ref, ld_ref = bd.ref_eval(node, "fwd", x, c, True, tr)
    y_ref0, _ = bd.ref_eval(node, "fwd", x, c, False)
    from vf import bijcase as _bc
    if (tr.max_ld_per_elem > ILL_LD or getattr(tr, "max_ld_leaf", 0.0) > 15.0 or not np.all(np.isfinite(y_ref))
            or any(n.kind == "Planar" and _bc.planar_degenerate(n.obj, cc) for n, d, xx, cc in tr.leaf_calls)):
        return "ill", None  # a leaf (de)magnifies by > e^15 per element / e^15 in volume, or a planar layer is numerically singular
    try:  # declared shapes must be ACCEPTED by the methods
        y1, ld1 = lib_call(f"C08|{top}|transform_and_log_det", obj.transform_and_log_det, jnp.asarray(x), cj)
        y0 = lib_call(f"C08|{top}|transform", obj.transform, jnp.asarray(x), cj)
        M = tr.maxmag
        tolv = VTOL * (100 if node.numinv else 1)
        toll = LTOL * (100 if node.numinv else 1)
        checks = [("transform", y0, y_ref0, tolv), ("transform_and_log_det.value", y1, y_ref, tolv),
                  ("transform_and_log_det.logdet", ld1, ld_ref, toll)]
        if node.invertible:
            tr2 = bd.Trace()
            xb_ref, ldb_ref = bd.ref_eval(node, "inv", y_ref, c, True, tr2)
            xb_ref0, _ = bd.ref_eval(node, "inv", y_ref, c, False)
            xb1, ldb1 = lib_call(f"C08|{top}|inverse_and_log_det", obj.inverse_and_log_det, jnp.asarray(y_ref), cj)
            xb0 = lib_call(f"C08|{top}|inverse", obj.inverse, jnp.asarray(y_ref), cj)
            M = max(M, tr2.maxmag)
            checks += [("inverse", xb0, xb_ref0, tolv), ("inverse_and_log_det.value", xb1, xb_ref, tolv),
                       ("inverse_and_log_det.logdet", ldb1, ldb_ref, toll)]
    except Violation as v:
        return "bad", (v.signature.split("|", 2)[-1], v.detail)
    worst = 0.0
    for name, got, want, tol in checks:
        if np.asarray(got).shape != np.asarray(want).shape:
            return "bad", (f"{name}|shape", f"shape {np.asarray(got).shape} vs {np.asarray(want).shape}")
        scale = M if "logdet" not in name else abs(float(np.asarray(want)))
        r = _close(got, want, scale, tol)
        if r > 1.0:
            xp = x + 1e-13 * (1 + np.abs(x))  # is the reference itself ill-conditioned here?
            y_p, ld_p = bd.ref_eval(node, "fwd", xp, c, True)
            sens = max(_close(y_p, y_ref, M, tol), _close(ld_p, ld_ref, abs(ld_ref), tol))
            if sens > 0.01:
                return "ill", None
            if "logdet" in name and _kink_ok(node, x, c, got, tol, 1.0 if name.startswith("transform") else -1.0):
                continue  # a derivative kink (spline interval end, ...): either one-sided value is acceptable
            return "bad", (name, f"combinator gives {np.asarray(got).tolist()}, definition gives "
                                 f"{np.asarray(want).tolist()} (x={x.tolist()}, c={None if c is None else c.tolist()})")
        worst = max(worst, r)
    return "ok", dict(worst=worst, y0=y0, M=M, tolv=tolv, ld_ref=ld_ref, cj=cj)


def _kink_ok(node, x, c, got_ld, tol, sign):
    """At a point the implementation compares against, the log-det jumps and one ulp of rounding decides the
    side.  Accept the combinator's value if the reference FORWARD log-det at x with the tied coordinates
    displaced by +-1e-9 reproduces it (sign=-1: the inverse log-det at the image of x)."""
    from vf import bijcase as bc
    target = sign * float(np.asarray(got_ld))
    return bc.kink_match(lambda xn: bd.ref_eval(node, "fwd", xn, c, True)[1], x, bd.tree_points(node), target,
                         (tol + 1e-6) * (1 + abs(target)))


def culprit(node, inp):
    """Smallest sub-tree that disagrees with its definition on its own (failure localisation)."""
    for ch in node.children:
        x = bd.make_input(inp["xraw"], inp["xpick"], bd.tree_points(ch), ch.shape, ch.dom, inp["sigma"])
        c = bd.make_cond(inp["craw"], ch.cond_shape)
        status, payload = compare(ch, x, c)
        if status == "bad":
            return culprit(ch, inp) or (ch, payload)
    return None


def oracle(case, ctx):
    ctx.evaluated()
    spec = case["tree"]
    node = bd.build(spec, float(case["pscale"]))  # construction failures of VALID specs are violations
    obj = node.obj
    kinds = _kinds(node)
    top = node.kind
    inp = case["inp"]
    x = bd.make_input(inp["xraw"], inp["xpick"], bd.tree_points(node), node.shape, node.dom, inp["sigma"])
    c = bd.make_cond(inp["craw"], node.cond_shape)
    status, payload = compare(node, x, c)
    if status == "ill":
        ctx.inconcl("ill_conditioned")
        return
    if status == "bad":
        who, (name, detail) = culprit(node, inp) or (node, payload)
        raise Violation(f"C08|{who.kind}|{name}", f"{detail}; sub-tree={who.spec}")
    ctx.ratio("value_or_logdet_error/tol", max(payload["worst"], 1e-300))
    y0, M, tolv, ld_ref, cj = (payload[k] for k in ("y0", "M", "tolv", "ld_ref", "cj"))
    # --- structural identities ------------------------------------------------------------------
    if top == "Partial":
        pi = bd.py_index(spec["idx"])
        mask = np.ones(node.shape, bool)
        mask[pi] = False
        if not np.array_equal(np.asarray(y0)[mask], np.asarray(x)[mask]):
            raise Violation("C08|Partial|untouched_entries", "entries outside idxs are not bit-identical")
    if top == "Chain":
        ch = obj
        for name, alt in (("merge_chains", ch.merge_chains()), ("slices", B.Chain([ch[:1], ch[1:]])),
                          ("iter", B.Chain(list(iter(ch)))), ("index", B.Chain([ch[i] for i in range(len(ch))]))):
            ya = lib_call(f"C08|Chain|{name}", alt.transform, jnp.asarray(x), cj)
            if _close(ya, y0, M, tolv) > 1.0:
                raise Violation(f"C08|Chain|{name}", "function changed")
        # every contiguous slice: declared shape / cond_shape are those of its own members, it is callable with exactly
        # that condition (None when all its members are unconditional) and equals the members applied in order
        from flowjax.wrappers import unwrap as _unwrap
        mem = [_unwrap(ch[k]) for k in range(len(ch))]
        zs = [jnp.asarray(x)]
        for m in mem:
            zs.append(lib_call("C08|Chain|member", m.transform, zs[-1], cj if m.cond_shape is not None else None))
        merged = ch.merge_chains()
        if tuple(merged.shape) != tuple(ch.shape) or merged.cond_shape != ch.cond_shape:
            raise Violation("C08|Chain|merge_chains_declared", f"shape/cond_shape {merged.shape}/{merged.cond_shape} vs {ch.shape}/{ch.cond_shape}")
        pairs = [(i, j) for i in range(len(ch)) for j in range(i + 1, len(ch) + 1) if (i, j) != (0, len(ch))][:12]
        for i, j in pairs:
            sl = lib_call("C08|Chain|slice", lambda: ch[i:j])
            conds = [m.cond_shape for m in mem[i:j] if m.cond_shape is not None]
            want_cs = conds[0] if conds else None
            got_cs = None if sl.cond_shape is None else tuple(sl.cond_shape)
            if got_cs != (None if want_cs is None else tuple(want_cs)) or tuple(sl.shape) != tuple(ch.shape):
                raise Violation("C08|Chain|slice_declared", f"chain[{i}:{j}] declares shape/cond_shape {sl.shape}/{sl.cond_shape}; its members "
                                                            f"have {ch.shape}/{want_cs} (member cond_shapes {[m.cond_shape for m in mem]})")
            ys = lib_call("C08|Chain|slice_call", sl.transform, zs[i], cj if want_cs is not None else None)
            if np.all(np.isfinite(np.asarray(zs[j]))) and _close(ys, zs[j], float(np.max(np.abs(np.asarray(zs[j])), initial=0)), tolv) > 1.0:
                raise Violation("C08|Chain|slice_value", f"chain[{i}:{j}] differs from its members applied in order")
            ctx.hist("chain_slice", "drops_condition" if (want_cs is None and ch.cond_shape is not None) else "plain")
        if len(ch) != len(spec["children"]):
            raise Violation("C08|Chain|len", f"{len(ch)} != {len(spec['children'])}")
        if any(isinstance(b, B.Chain) for b in ch.merge_chains().bijections):
            raise Violation("C08|Chain|merge_chains", "nested chain remains")
    if node.invertible and case.get("dbl_invert"):
        dd = B.Invert(B.Invert(obj))
        ya = lib_call("C08|Invert|double", dd.transform, jnp.asarray(x), cj)
        if _close(ya, y0, M, tolv) > 1.0:
            raise Violation("C08|Invert|double", "Invert(Invert(b)) != b")
    # --- classification ---------------------------------------------------------------------------
    ncomb = sum(k in bd.COMBINATORS for k in kinds)
    for k in kinds:
        ctx.hist("node_kind", k)
    ctx.hist("rank", len(node.shape))
    ctx.hist("conditional", node.cond_shape is not None)
    ctx.hist("n_nodes", len(kinds))
    neg = _has_neg_axis(spec)
    if (ncomb >= 2 or neg) and abs(ld_ref) > 1e-6:
        ctx.mark_nontrivial(case)
    if ctx.evaluations % 37 == 1:
        ctx.sample(case)


def oracle_merge_transforms(case, ctx):
    """merge_transforms never changes the function (nested Transformed distributions)."""
    ctx.evaluated()
    specs = case["trees"]
    nodes = [bd.build(s, float(case["pscale"])) for s in specs]
    shape = nodes[0].shape
    d = StandardNormal(shape)
    for n in nodes:
        d = Transformed(d, n.obj)
    merged = lib_call("C08|merge_transforms", d.merge_transforms)
    from flowjax.distributions import AbstractTransformed
    if isinstance(merged.base_dist, AbstractTransformed):
        raise Violation("C08|merge_transforms|base", "base distribution of the merged distribution is still Transformed")
    inp = case["inp"]
    x = bd.make_input(inp["xraw"], inp["xpick"], [], shape, nodes[-1].cod, inp["sigma"])
    key = jax.random.PRNGKey(int(case.get("key", 0)))
    a = lib_call("C08|merge_transforms|sample", d.sample, key)
    b = lib_call("C08|merge_transforms|sample", merged.sample, key)
    if _close(a, b, float(np.max(np.abs(a), initial=0)), VTOL) > 1.0:
        raise Violation("C08|merge_transforms|sample", f"nested {np.asarray(a).tolist()} merged {np.asarray(b).tolist()}")
    la = lib_call("C08|merge_transforms|log_prob", d.log_prob, a)
    lb = lib_call("C08|merge_transforms|log_prob", merged.log_prob, a)
    if _close(la, lb, abs(float(la)), LTOL) > 1.0:
        raise Violation("C08|merge_transforms|log_prob", f"nested {float(la)} merged {float(lb)}")
    if len(specs) >= 2 and any(s["k"] == "Chain" for s in specs):
        ctx.mark_nontrivial(case)


def replay(spec, ctx):
    spec = spec.get("spec", spec)
    (oracle_merge_transforms if "trees" in spec else oracle)(spec, ctx)


@st.composite
def cases(draw, max_depth, max_nodes):
    return {"tree": draw(gen.any_tree(max_depth, max_nodes)), "pscale": draw(gen.PSCALES), "inp": draw(gen.inputs()),
            "dbl_invert": draw(st.integers(0, 4)) == 0}


@st.composite
def mt_cases(draw):
    shape = draw(st.sampled_from([(), (2,), (3,), (2, 2)]))
    n = draw(st.integers(1, 3))
    trees = [draw(gen.tree(shape, None, 1, 3, numinv=False, big=False)) for _ in range(n)]
    # every nested level must accept all reals (it is applied to the previous level's samples)
    return {"trees": trees, "pscale": draw(gen.PSCALES), "inp": draw(gen.inputs()), "key": draw(st.integers(0, 99))}


def axis_sweep():
    """Exhaustive: every valid axis (negative included) for Stack / Concatenate / Vmap's condition axis."""
    aff = lambda sh, sd: {"k": "Affine", "shape": list(sh), "seed": sd}  # noqa: E731
    inp = {"xraw": [0.3, -1.1, 0.7, 1.9, -0.4, 0.05, 2.2, -0.9], "xpick": [-1] * 8, "craw": [0.4, -0.6, 1.1, 0.2, -1.3, 0.9, 0.1, -0.2],
           "sigma": 1.0}
    for sh in [(), (2,), (2, 3), (1, 2)]:
        r = len(sh)
        for ax in range(-(r + 1), r + 1):
            yield {"tree": {"k": "Stack", "axis": ax, "children": [aff(sh, 1), aff(sh, 2)]}, "pscale": 0.3, "inp": inp, "dbl_invert": False}
    for sh in [(2,), (2, 3), (2, 1, 3)]:
        r = len(sh)
        for ax in range(-r, r):
            other = list(sh)
            other[ax] = sh[ax] + 1
            yield {"tree": {"k": "Concatenate", "axis": ax, "children": [aff(sh, 1), aff(other, 2)]}, "pscale": 0.3, "inp": inp,
                   "dbl_invert": False}
    for csh in [(), (2,), (2, 3), (3, 2)]:
        r = len(csh)
        for cax in [None] + list(range(-(r + 1), r + 1)):
            for mapped in (False, True):
                t = {"k": "Vmap", "n": 4, "mapped": mapped,
                     "child": {"k": "AdditiveCondition", "shape": [], "cond": list(csh), "seed": 3, "module": "tensor"}}
                if cax is not None:
                    t["cond_axis"] = cax
                yield {"tree": t, "pscale": 0.3, "inp": inp, "dbl_invert": False}


def partial_slice_sweep():
    """Exhaustive: Partial with every bare slice (start, stop, step; negative steps and None included) that selects at
    least one element of a leading axis of length 1-5, and 2-D shapes; the child is an Affine over the selected block."""
    inp = {"xraw": [0.3, -1.1, 0.7, 1.9, -0.4, 0.05, 2.2, -0.9], "xpick": [-1] * 8, "craw": [0.4, -0.6, 1.1, 0.2, -1.3, 0.9, 0.1, -0.2],
           "sigma": 1.0}
    seen = set()
    for sh in [(1,), (2,), (3,), (4,), (5,), (4, 2), (5, 1)]:
        n0 = sh[0]
        for start in [None] + list(range(-n0, n0)):
            for stop in [None] + list(range(-n0, n0 + 1)):
                for step in (None, 1, 2, 3, -1, -2):
                    sel = np.arange(n0)[slice(start, stop, step)]
                    key = (sh, tuple(sel.tolist()), step is not None and step < 0)
                    if len(sel) == 0 or key in seen:
                        continue
                    seen.add(key)
                    yield {"tree": {"k": "Partial", "shape": list(sh), "idx": {"t": "slice", "v": [start, stop, step]},
                                    "child": {"k": "Affine", "shape": [len(sel)] + list(sh[1:]), "seed": 5}},
                           "pscale": 0.3, "inp": inp, "dbl_invert": False}


def run(ctx):
    q = ctx.tier == "quick"
    n = 0
    from vf.core import shard
    for c in shard(axis_sweep(), ctx):
        try:
            oracle(c, ctx)
        except Violation as v:
            ctx.fail(v.signature, c, v.detail)
        n += 1
    ctx.exhaustive["axis_sweep"] = n
    n = 0
    for c in shard(partial_slice_sweep(), ctx):
        try:
            oracle(c, ctx)
        except Violation as v:
            ctx.fail(v.signature, c, v.detail)
        n += 1
    ctx.exhaustive["partial_slice_sweep"] = n
    run_hypothesis(ctx, cases(3, 8) if q else cases(4, 14), oracle, 110 if q else 600, "C08-trees")
    run_hypothesis(ctx, mt_cases(), oracle_merge_transforms, 15 if q else 150, "C08-merge_transforms")
