"""C05 - named distribution families match their textbook densities and samplers.

Reference = closed-form float64 log-densities / CDFs written with numpy + scipy.special (scipy.stats
is not used: e.g. scipy's laplace.logpdf underflows in the far tail where flowjax is right)."""
import math

import equinox as eqx
import jax
import jax.numpy as jnp
import jax.random as jr
import numpy as np
from hypothesis import strategies as st
from scipy import special as sp

from flowjax import distributions as D
from vf.core import Violation, expect_raises, lib_call, run_hypothesis

from vf import shim

F32 = shim.F32
LT = 2e-4 if F32 else 1e-9    # log-density tolerance (relative, plus per-dimension absolute part)
AT = 1e-5 if F32 else 1e-11   # accessor tolerance (relative)
LOG2PI = math.log(2 * math.pi)
TINY = 1e-290  # smallest magnitudes used next to 0: subnormals are flushed to zero by XLA on CPU (not a flowjax matter)
FAMILIES = ["Normal", "LogNormal", "Uniform", "Gumbel", "Cauchy", "StudentT", "Laplace", "Exponential", "Logistic"]


# ------------------------- textbook log-densities and CDFs (elementwise) -----------------------
def ref_logpdf(fam, x, p):
    x = np.asarray(x, np.float64)
    with np.errstate(all="ignore"):
        if fam == "Normal":
            z = (x - p["loc"]) / p["scale"]
            return -0.5 * z * z - np.log(p["scale"]) - 0.5 * LOG2PI
        if fam == "LogNormal":
            lx = np.log(np.where(x > 0, x, 1.0))
            z = (lx - p["loc"]) / p["scale"]
            return np.where(x > 0, -0.5 * z * z - np.log(p["scale"]) - 0.5 * LOG2PI - lx, -np.inf)
        if fam == "Uniform":
            a, b = p["minval"], p["maxval"]
            return np.where((x >= a) & (x <= b), -np.log(b - a), -np.inf) + 0 * x
        if fam == "Gumbel":
            z = (x - p["loc"]) / p["scale"]
            return -(z + np.exp(-z)) - np.log(p["scale"])
        if fam == "Cauchy":
            z = (x - p["loc"]) / p["scale"]
            return -np.log(math.pi) - np.log(p["scale"]) - np.log1p(z * z)
        if fam == "StudentT":
            v = p["df"]
            z = (x - p["loc"]) / p["scale"]
            return (sp.gammaln((v + 1) / 2) - sp.gammaln(v / 2) - 0.5 * np.log(v * math.pi)
                    - (v + 1) / 2 * np.log1p(z * z / v) - np.log(p["scale"]))
        if fam == "Laplace":
            z = (x - p["loc"]) / p["scale"]
            return -np.abs(z) - np.log(2 * p["scale"])
        if fam == "Exponential":
            return np.where(x >= 0, np.log(p["rate"]) - p["rate"] * x, -np.inf)
        if fam == "Logistic":
            z = (x - p["loc"]) / p["scale"]
            return -z - 2 * np.logaddexp(0.0, -z) - np.log(p["scale"])
    raise ValueError(fam)


def ref_rounding_floor(fam, x, p):
    """Elementwise absolute rounding floor of the TEXTBOOK formula itself in working precision: the Student-t
    normaliser is a difference of two log-gamma values of magnitude ~ (df/2) log(df/2), so any implementation that
    evaluates the textbook expression loses eps * that magnitude (float32, df = 2e4: ~5e-3 per element - seen as a
    false alarm at VERIF_SEED=2).  Zero for the other families (their terms are O(|log-density|))."""
    if fam != "StudentT":
        return 0.0 * np.asarray(x, np.float64)
    v = np.asarray(p["df"], np.float64)
    eps = 6e-8 if F32 else 1.2e-16
    return 16 * eps * (np.abs(sp.gammaln((v + 1) / 2)) + np.abs(sp.gammaln(v / 2))) + 0.0 * np.asarray(x, np.float64)


def ref_cdf(fam, x, p):
    x = np.asarray(x, np.float64)
    with np.errstate(all="ignore"):
        if fam == "Normal":
            return sp.ndtr((x - p["loc"]) / p["scale"])
        if fam == "LogNormal":
            return np.where(x > 0, sp.ndtr((np.log(np.where(x > 0, x, 1.0)) - p["loc"]) / p["scale"]), 0.0)
        if fam == "Uniform":
            return np.clip((x - p["minval"]) / (p["maxval"] - p["minval"]), 0, 1)
        if fam == "Gumbel":
            return np.exp(-np.exp(-(x - p["loc"]) / p["scale"]))
        if fam == "Cauchy":
            return 0.5 + np.arctan((x - p["loc"]) / p["scale"]) / math.pi
        if fam == "StudentT":
            return sp.stdtr(p["df"], (x - p["loc"]) / p["scale"])
        if fam == "Laplace":
            z = (x - p["loc"]) / p["scale"]
            return np.where(z < 0, 0.5 * np.exp(z), 1 - 0.5 * np.exp(-z))
        if fam == "Exponential":
            return np.where(x >= 0, -np.expm1(-p["rate"] * x), 0.0)
        if fam == "Logistic":
            return sp.expit((x - p["loc"]) / p["scale"])
    raise ValueError(fam)


def construct(fam, p):
    j = {k: jnp.asarray(v) for k, v in p.items()}
    if fam in ("Normal", "LogNormal", "Gumbel", "Cauchy", "Laplace", "Logistic"):
        return getattr(D, fam)(j["loc"], j["scale"])
    if fam == "Uniform":
        return D.Uniform(j["minval"], j["maxval"])
    if fam == "StudentT":
        return D.StudentT(j["df"], j["loc"], j["scale"])
    if fam == "Exponential":
        return D.Exponential(j["rate"])
    raise ValueError(fam)


def _nxt(v, d, width=0.0):
    """A point just beyond/inside an edge: 1e-9 relative (to the edge magnitude / support width) away.
    One-ulp neighbours are NOT used: the location-scale map (x-a)/(b-a) legitimately rounds them onto
    the edge, and the property is about textbook densities up to rounding (false alarm seen and fixed)."""
    v = np.asarray(v, np.float64)
    step = 1e-9 * np.maximum(np.abs(v), np.asarray(width, np.float64))
    return np.where(step == 0, d * TINY, v + d * step)


def support_point(fam, p, kind, z):
    """Evaluation points: bulk, far tails, support edges (+ float neighbours), outside."""
    if fam == "Uniform":
        a, b = p["minval"], p["maxval"]
        return {"bulk": a + (b - a) * (0.5 + 0.49 * np.tanh(z)), "tail": a + (b - a) * (0.5 + 0.49 * np.tanh(z)),
                "edge": np.where(z > 0, b, a), "edge+": np.where(z > 0, _nxt(b, 1, b - a), _nxt(a, 1, b - a)),
                "edge-": np.where(z > 0, _nxt(b, -1, b - a), _nxt(a, -1, b - a)),
                "outside": np.where(z > 0, b + np.abs(z) * (b - a) + 1e-3, a - np.abs(z) * (b - a) - 1e-3)}[kind]
    if fam == "Exponential":
        s = 1 / p["rate"]
        return {"bulk": s * np.abs(z), "tail": s * np.abs(z) * 200, "edge": 0 * s, "edge+": 0 * s + TINY,
                "edge-": 0 * s - TINY, "outside": -s * (np.abs(z) + 1e-3)}[kind]
    if fam == "LogNormal":
        b = np.exp(np.clip(p["loc"] + p["scale"] * z, -600, 600))
        return {"bulk": b, "tail": np.exp(np.clip(p["loc"] + p["scale"] * z * 8, -600, 600)), "edge": 0 * b,
                "edge+": 0 * b + TINY, "edge-": 0 * b - TINY, "outside": -b}[kind]
    mult = {"bulk": 1.0, "tail": 3e3, "edge": 0.0, "edge+": 1e-12, "edge-": -1e-12, "outside": 1e4}[kind]
    if fam in ("Gumbel",) and kind in ("tail", "outside"):
        z = np.where(z < 0, z / 1e3, z)  # exp(-z) overflows in the far left tail: log-density is -inf-ish there
    return p["loc"] + p["scale"] * z * mult


def params_for(fam, shapes, vals):
    """vals: iterator of standard-normal-ish floats; magnitudes log-uniform 1e-3..1e3."""
    def take(shape, positive, wide=True):
        n = int(np.prod(shape)) if len(shape) else 1
        v = np.asarray([next(vals) for _ in range(n)], np.float64).reshape(shape)
        if positive:  # float32 workers: 1e-6..1e6 (the default precision of the library; small scales stress the reparameterisation)
            out = np.exp(np.clip(v, -3, 3) * ((4.6 if F32 else 2.3) if wide else 0.5))
            return out.astype(np.float32).astype(np.float64) if F32 else out
        return v * (0.0 if F32 else 10.0)  # float32: loc = 0 so that (x - loc)/scale involves no cancellation
    if fam == "Uniform":
        a = take(shapes[0], False)
        w = take(shapes[1], True)
        return {"minval": a, "maxval": a + w}  # shapes broadcast
    if fam == "Exponential":
        return {"rate": take(shapes[1], True)}
    p = {"loc": take(shapes[0], False), "scale": take(shapes[1], True)}
    if fam == "LogNormal":
        p = {"loc": p["loc"] / 10, "scale": np.minimum(p["scale"], 5.0)}
    if fam == "StudentT":  # df >= 0.5: for smaller df samples legitimately overflow float64 (P(|T|>1e308) ~ 1e-3 at df=0.01)
        p["df"] = 0.5 + take(shapes[2], True) ** 0.75
    return p


SHAPE_TRIPLES = [((), (), ()), ((3,), (3,), (3,)), ((3,), (), ()), ((), (3,), ()), ((), (), (3,)), ((2, 3), (3,), (2, 1)),
                 ((2, 1), (1, 3), ()), ((1, 3), (2, 1), (3,)), ((2, 3), (2, 3), (1, 1)), ((3,), (2, 3), ())]


@st.composite
def family_cases(draw):
    fam = draw(st.sampled_from(FAMILIES))
    shapes = draw(st.sampled_from(SHAPE_TRIPLES))
    vals = draw(st.lists(st.floats(-3, 3, allow_nan=False), min_size=24, max_size=24))
    return {"fam": fam, "shapes": [list(s) for s in shapes], "vals": vals,
            "z": draw(st.lists(st.floats(-4, 4, allow_nan=False), min_size=8, max_size=8)),
            "kinds": draw(st.lists(st.sampled_from(["bulk", "bulk", "tail", "edge", "edge+", "edge-", "outside"]),
                                   min_size=8, max_size=8)),
            "batch": draw(st.sampled_from([[], [2], [2, 2]])), "sample": draw(st.integers(0, 5)) == 0,
            "key": draw(st.integers(0, 10**6))}


def cyc(vals):
    i = 0
    while True:
        yield vals[i % len(vals)]
        i += 1


def oracle_family(c, ctx):
    fam = c["fam"]
    shapes = [tuple(s) for s in c["shapes"]]
    p = params_for(fam, shapes, cyc(c["vals"]))
    dist = lib_call(f"C05|{fam}|construct", construct, fam, p)
    ev = np.broadcast_shapes(*[np.shape(v) for v in p.values()])
    if tuple(dist.shape) != tuple(ev):
        raise Violation(f"C05|{fam}|shape", f"distribution shape {dist.shape}, broadcast parameter shape {ev}")
    pb = {k: np.broadcast_to(v, ev) for k, v in p.items()}
    # ---- accessors return the constructor's values -------------------------------------------
    for name in p:
        if not hasattr(dist, name):  # LogNormal documents no accessors
            continue
        got = np.asarray(getattr(dist, name), np.float64)
        want = pb[name]
        sc = np.abs(want) + (np.abs(pb["minval"]) if name == "maxval" else 0)
        try:  # the accessor may or may not be broadcast to the event shape; its VALUES are what is promised
            got = np.broadcast_to(got, want.shape)
        except ValueError:
            raise Violation(f"C05|{fam}|accessor.{name}", f"shape {got.shape} does not broadcast to {want.shape}")
        if np.any(np.abs(got - want) > AT * (sc + 1e-300)):
            raise Violation(f"C05|{fam}|accessor.{name}", f"got {got.tolist()} constructor value {want.tolist()}")
    # ---- log_prob at bulk / tails / edges / outside, batched ---------------------------------
    batch = tuple(c["batch"])
    full = batch + tuple(ev)
    n = int(np.prod(full)) if full else 1
    z = np.asarray([c["z"][i % 8] * (1 + 0.13 * (i // 8)) for i in range(n)]).reshape(full)
    kinds = np.asarray([("bulk" if F32 else c["kinds"][i % 8]) for i in range(n)]).reshape(full)
    x = np.empty(full, np.float64)
    for kd in set(kinds.reshape(-1).tolist()):
        x = np.where(kinds == kd, np.broadcast_to(support_point(fam, pb, kd, z), full), x)
    if F32:
        x = x.astype(np.float32).astype(np.float64)  # the reference sees exactly the float32 input the library sees
    lp = np.asarray(lib_call(f"C05|{fam}|log_prob", dist.log_prob, jnp.asarray(x)), np.float64)
    el = ref_logpdf(fam, x, pb)
    floor_el = np.broadcast_to(ref_rounding_floor(fam, x, pb), full)
    floor = floor_el.sum(axis=tuple(range(len(batch), len(full)))) if len(full) > len(batch) else floor_el
    edge_amb = np.zeros(full, bool)
    if fam in ("Uniform", "Exponential", "LogNormal"):
        edge_amb = kinds == "edge"  # either convention (closed/open) is accepted exactly on the edge
    axes = tuple(range(len(batch), len(full)))
    want = el.sum(axis=axes) if axes else el
    amb = edge_amb.any(axis=axes) if axes else edge_amb
    if lp.shape != want.shape:
        raise Violation(f"C05|{fam}|log_prob|shape", f"{lp.shape} vs {want.shape}")
    if np.any(np.isnan(lp)):
        raise Violation(f"C05|{fam}|log_prob|nan", f"x={x.tolist()} params={ {k: v.tolist() for k, v in p.items()} }")
    for idx in np.ndindex(want.shape):
        g, w = lp[idx], want[idx]
        if amb[idx]:
            alt = np.where(edge_amb, -np.inf, el)
            w2 = (alt.sum(axis=axes) if axes else alt)[idx]
            if g == w2 or (np.isfinite(g) and np.isfinite(w) and abs(g - w) <= LT * (1 + abs(w))):
                continue
            if not np.isfinite(w2) and g == -np.inf:
                continue
        if np.isneginf(w):
            ok = np.isneginf(g)
        elif not np.isfinite(w):
            ok = True  # reference itself overflowed (e.g. Gumbel far left tail)
        else:
            ok = np.isfinite(g) and abs(g - w) <= LT * (1 + abs(w)) + LT * np.sum(np.abs(el[idx])) + floor[idx] if axes else \
                np.isfinite(g) and abs(g - w) <= LT * (1 + abs(w)) + floor[idx]
            if ok:
                ctx.ratio(fam, abs(g - w) / (LT * (1 + abs(w))))
        if not ok:
            raise Violation(f"C05|{fam}|log_prob",
                            f"log_prob={g!r} textbook={w!r} at x={x[idx].tolist() if axes else x[idx]} "
                            f"params={ {k: np.asarray(v).tolist() for k, v in p.items()} } kinds={kinds[idx].tolist() if axes else kinds[idx]}")
    # ---- sampler ---------------------------------------------------------------------------------
    if c["sample"] and not F32:
        check_sampler(fam, dist, pb, ev, c["key"], ctx)
    nt = all(np.any(np.abs(np.asarray(v) - d) > 0.1 * max(d, 1)) for (k, v), d in
             zip(p.items(), [0 if k in ("loc", "minval") else 1 for k in p]))
    if nt:
        ctx.mark_nontrivial(c)
    ctx.hist("family", fam)
    for kd in set(kinds.reshape(-1).tolist()):
        ctx.hist("point_class", kd)


N_SAMPLES = 20000
DKW = math.sqrt(math.log(2 / 1e-9) / (2 * N_SAMPLES))  # P(sup|Fn-F| > DKW) <= 1e-9


def ks_distance(samples, cdf_vals_sorted):
    n = len(cdf_vals_sorted)
    hi = np.arange(1, n + 1) / n - cdf_vals_sorted
    lo = cdf_vals_sorted - np.arange(0, n) / n
    return float(max(hi.max(), lo.max()))


def check_sampler(fam, dist, pb, ev, key, ctx, cdf=None):
    s = np.asarray(lib_call(f"C05|{fam}|sample", dist.sample, jr.PRNGKey(int(key)), (N_SAMPLES,)), np.float64)
    if s.shape != (N_SAMPLES,) + tuple(ev):
        raise Violation(f"C05|{fam}|sample|shape", f"{s.shape}")
    if not np.all(np.isfinite(s)):
        raise Violation(f"C05|{fam}|sample|nonfinite", "non-finite samples")
    flat = s.reshape(N_SAMPLES, -1)
    worst = 0.0
    for j in range(flat.shape[1]):
        pj = {k: np.asarray(v).reshape(-1)[j] for k, v in pb.items()} if cdf is None else None
        col = np.sort(flat[:, j])
        if fam == "Uniform" and (col[0] < pj["minval"] or col[-1] > pj["maxval"]):
            raise Violation("C05|Uniform|sample|support", f"sample outside [{pj['minval']}, {pj['maxval']}]")
        if fam in ("Exponential", "LogNormal") and col[0] < 0:
            raise Violation(f"C05|{fam}|sample|support", "negative sample")
        F = ref_cdf(fam, col, pj) if cdf is None else cdf(col, j)
        d = ks_distance(col, F)
        worst = max(worst, d)
        if d > DKW:
            raise Violation(f"C05|{fam}|sample|ks", f"KS distance {d:.4f} > DKW bound {DKW:.4f} (n={N_SAMPLES}) coordinate {j}")
    ctx.ratio(f"ks/{fam}", worst / DKW)
    ctx.hist("sampler_checked", fam)


# ------------------------------------------ MVN -----------------------------------------------
@st.composite
def mvn_cases(draw):
    d = draw(st.integers(1, 5))
    return {"fam": "MVN", "dim": d, "A": draw(st.lists(st.floats(-2, 2, allow_nan=False), min_size=d * d, max_size=d * d)),
            "lam": draw(st.sampled_from([1e-3, 0.1, 1.0, 10.0])), "loc": draw(st.lists(st.floats(-10, 10), min_size=d, max_size=d)),
            "scalar_loc": draw(st.booleans()), "x": draw(st.lists(st.floats(-20, 20), min_size=2 * d, max_size=2 * d)),
            "sample": draw(st.integers(0, 3)) == 0, "key": draw(st.integers(0, 10**6))}


def oracle_mvn(c, ctx):
    d = int(c["dim"])
    A = np.asarray(c["A"], np.float64).reshape(d, d)
    cov = A @ A.T + c["lam"] * np.eye(d)
    loc = np.asarray(c["loc"], np.float64)
    loc_arg = loc[0] if c["scalar_loc"] else loc
    locb = np.broadcast_to(loc_arg, (d,))
    dist = lib_call("C05|MVN|construct", D.MultivariateNormal, jnp.asarray(loc_arg), jnp.asarray(cov))
    kappa = np.linalg.cond(cov)
    if np.max(np.abs(np.asarray(dist.covariance) - cov)) > 1e-12 * kappa * (1 + np.max(np.abs(cov))):
        raise Violation("C05|MVN|accessor.covariance", f"{np.asarray(dist.covariance).tolist()} vs {cov.tolist()}")
    if np.max(np.abs(np.asarray(dist.loc) - locb)) > 1e-12 * (1 + np.max(np.abs(locb))):
        raise Violation("C05|MVN|accessor.loc", f"{np.asarray(dist.loc).tolist()} vs {locb.tolist()}")
    x = np.asarray(c["x"], np.float64).reshape(2, d)
    lp = np.asarray(lib_call("C05|MVN|log_prob", dist.log_prob, jnp.asarray(x)), np.float64)
    r = x - locb
    sol = np.linalg.solve(cov, r.T).T
    want = -0.5 * np.sum(r * sol, axis=1) - 0.5 * (d * LOG2PI + np.linalg.slogdet(cov)[1])
    tol = 1e-9 * (1 + np.abs(want)) * max(1.0, kappa * 1e-3)
    if lp.shape != want.shape or np.any(~(np.abs(lp - want) <= tol)):
        raise Violation("C05|MVN|log_prob", f"log_prob={lp.tolist()} textbook={want.tolist()} cov={cov.tolist()} loc={locb.tolist()}")
    if c["sample"]:
        L = np.linalg.cholesky(cov)

        class W:  # whitened samples must be iid N(0,1) per coordinate
            def sample(self, key, shape):
                s = np.asarray(dist.sample(key, shape), np.float64)
                return np.linalg.solve(L, (s - locb).T).T
        check_sampler("MVN", W(), None, (d,), c["key"], ctx, cdf=lambda col, j: sp.ndtr(col))
    if d > 1 and np.max(np.abs(cov - np.diag(np.diag(cov)))) > 0.1:
        ctx.mark_nontrivial(c)
    ctx.hist("family", "MVN")


# ------------------------------------------ mixtures -------------------------------------------
@st.composite
def mixture_cases(draw):
    fam = draw(st.sampled_from([f for f in FAMILIES if f not in ("StudentT",)]))
    k = draw(st.integers(2, 5))
    ev = draw(st.sampled_from([(), (2,)]))
    return {"fam": "Mixture", "comp": fam, "k": k, "ev": list(ev),
            "vals": draw(st.lists(st.floats(-3, 3, allow_nan=False), min_size=30, max_size=30)),
            "w": draw(st.lists(st.floats(-3, 3), min_size=k, max_size=k)), "scale_w": draw(st.sampled_from([1e-3, 0.37, 1.0, 250.0, 1e3])),
            "z": draw(st.lists(st.floats(-4, 4, allow_nan=False), min_size=6, max_size=6)),
            "sample": draw(st.integers(0, 2)) == 0, "key": draw(st.integers(0, 10**6)),
            "perturb": draw(st.sampled_from([0.0, 0.0, 0.5, 1.5])), "pseed": draw(st.integers(0, 999))}


def oracle_mixture(c, ctx):
    fam, k, ev = c["comp"], int(c["k"]), tuple(c["ev"])
    shp = (k,) + ev
    p = params_for(fam, [shp, shp, shp], cyc(c["vals"]))
    p = {kk: (np.clip(v, 0.05, 20) if kk in ("scale", "rate") else v) for kk, v in p.items()}
    if fam == "Uniform":
        p["maxval"] = p["minval"] + np.clip(p["maxval"] - p["minval"], 0.05, 20)
    w = np.exp(np.asarray(c["w"], np.float64) * 2.3)
    comp = eqx.filter_vmap(lambda q: construct(fam, q))({kk: jnp.asarray(v) for kk, v in p.items()})
    mix = lib_call("C05|Mixture|construct", D.VmapMixture, comp, jnp.asarray(w))
    mix2 = lib_call("C05|Mixture|construct", D.VmapMixture, comp, jnp.asarray(w * c["scale_w"]))
    if tuple(mix.shape) != ev:
        raise Violation("C05|Mixture|shape", f"{mix.shape} vs {ev}")
    ps = float(c.get("perturb", 0.0) or 0.0)
    if ps and fam != "LogNormal":  # LogNormal documents no accessors to read the moved parameters back from
        # "every valid parameter value": move the trainable (unconstrained) arrays the way an optimiser does, read the
        # moved component parameters and weights back through the accessors, and demand the same defining formula.
        from flowjax.wrappers import unwrap
        from vf import build as bd
        mix = bd.perturb(mix, ps, int(c.get("pseed", 0)))
        mix2 = None
        um = unwrap(mix)
        p = {kk: np.asarray(getattr(um.dist, kk), np.float64) for kk in p}
        lw = np.asarray(um.log_normalized_weights, np.float64)
        w = np.exp(lw - np.max(lw))
        ctx.hist("mixture_perturbed", fam)
    logw = np.log(w) - np.log(np.sum(w))
    # evaluation points around the components
    n = int(np.prod(ev)) if ev else 1
    xs = []
    for i, z in enumerate(c["z"]):
        j = i % k
        pj = {kk: v[j] for kk, v in p.items()}
        xs.append(np.broadcast_to(support_point(fam, pj, "bulk", z * np.ones(ev)), ev))
    x = np.stack(xs)
    lp = np.asarray(lib_call("C05|Mixture|log_prob", mix.log_prob, jnp.asarray(x)), np.float64)
    lp2 = lp if mix2 is None else np.asarray(lib_call("C05|Mixture|log_prob", mix2.log_prob, jnp.asarray(x)), np.float64)
    comp_lp = np.stack([ref_logpdf(fam, x, {kk: v[j] for kk, v in p.items()}).reshape(len(x), -1).sum(1) for j in range(k)], 1)
    want = sp.logsumexp(comp_lp + logw[None, :], axis=1)
    if np.any(np.isnan(lp)):
        raise Violation("C05|Mixture|log_prob|nan", f"x={x.tolist()}")
    fin = np.isfinite(want)
    if np.any(np.abs(lp[fin] - want[fin]) > 1e-9 * (1 + np.abs(want[fin]))) or np.any(~np.isneginf(lp[~fin] if np.any(~fin) else np.array([-np.inf]))):
        raise Violation("C05|Mixture|log_prob", f"log_prob={lp.tolist()} weight-normalised sum={want.tolist()} weights={w.tolist()} comp={fam}")
    if np.any(np.abs(lp2[fin] - lp[fin]) > 1e-11 * (1 + np.abs(lp[fin]))):
        raise Violation("C05|Mixture|weight_rescaling", f"log_prob changed under w -> {c['scale_w']}*w: {lp.tolist()} vs {lp2.tolist()}")
    if c["sample"]:
        def cdf(col, j):
            return sum(np.exp(logw[i]) * ref_cdf(fam, col, {kk: v[i].reshape(-1)[j] for kk, v in p.items()}) for i in range(k))
        check_sampler("Mixture", mix, None, ev, c["key"], ctx, cdf=cdf)
    if np.max(w) / np.min(w) > 1.5:
        ctx.mark_nontrivial(c)
    ctx.hist("family", f"Mixture[{fam}]")


# ------------------------------------------ invalid arguments (cheap) ---------------------------
def oracle(c, ctx):
    ctx.evaluated()
    {"MVN": oracle_mvn, "Mixture": oracle_mixture}.get(c["fam"], oracle_family)(c, ctx)
    if ctx.evaluations % 47 == 1:
        ctx.sample(c)


def replay(spec, ctx):
    oracle(spec.get("spec", spec) if "fam" not in spec else spec, ctx)


def run(ctx):
    q = ctx.tier == "quick"
    run_hypothesis(ctx, family_cases(), oracle, 150 if q else 1500, "C05-families")
    if F32:  # float32 workers: accessor / bulk log-density clauses of the scalar families only
        return
    run_hypothesis(ctx, mvn_cases(), oracle, 25 if q else 250, "C05-mvn")
    run_hypothesis(ctx, mixture_cases(), oracle, 25 if q else 250, "C05-mixtures")
