"""C03 - transformed densities obey change of variables on both evaluation paths.

Using only the public attributes dist.base_dist / dist.bijection:
 (1) log_prob(x) == base.log_prob(z) + ld, (z, ld) = bijection.inverse_and_log_det(x) - and with ld replaced
     by -log|det J| of the AUTODIFF Jacobian of bijection.transform at z (a sign flip common to both
     hand-written places is still caught);
 (2) sample(key) == bijection.transform(base.sample(key));  (3) sample_and_log_prob == (s, log_prob(s));
 (4) factory orientation: same key, invert=True/False give mutually inverse bijections; a recording
     inverter shows BNAF's log_prob (invert=True) and sample (invert=False) never search; tanh-planar
     raises on the documented side;  (5) merge_transforms changes nothing."""
import equinox as eqx
import jax
import jax.numpy as jnp
import jax.random as jr
import numpy as np
from hypothesis import strategies as st

from flowjax import bijections as B
from flowjax import distributions as D
from flowjax import flows
from flowjax.bisection_search import AutoregressiveBisectionInverter
from vf import bijcase as bc
from vf import build as bd
from vf import gen
from vf.core import Violation, expect_raises, lib_call, run_hypothesis

TOL = 1e-8


def base_dist(name, shape, seed, cond=None):
    one = jnp.ones(shape)
    loc = 0.5 * jr.normal(jr.PRNGKey(seed), shape)
    sc = jnp.exp(0.3 * jr.normal(jr.PRNGKey(seed + 1), shape))
    if name == "condbase":
        node = bd.build_leaf({"k": "AdditiveCondition", "shape": list(shape), "cond": list(cond), "seed": seed, "module": "tensor"}, 0.5)
        return D.Transformed(D.Normal(loc, sc), node.obj)
    if name == "nested":
        return D.Transformed(D.Laplace(loc, sc), B.Affine(loc * 2, sc + 0.5))
    if name == "mixture":
        return D.VmapMixture(eqx.filter_vmap(lambda m: D.Normal(m * one + loc, sc))(jnp.arange(3.0)), jnp.asarray([1.0, 2.0, 0.7]))
    return {"StandardNormal": lambda: D.StandardNormal(shape), "Normal": lambda: D.Normal(loc, sc), "Laplace": lambda: D.Laplace(loc, sc),
            "Logistic": lambda: D.Logistic(loc, sc), "Gumbel": lambda: D.Gumbel(loc, sc), "StudentT": lambda: D.StudentT(one * 4, loc, sc),
            "Uniform": lambda: D.Uniform(loc - 1, loc + 2 * sc), "Exponential": lambda: D.Exponential(sc), "Cauchy": lambda: D.Cauchy(loc, sc)}[name]()


def split_cond(dist, c):
    cb = c if dist.base_dist.cond_shape is not None else None
    cj = c if dist.bijection.cond_shape is not None else None
    return cb, cj


def close(a, b, tol=TOL, scale=None):
    a, b = np.asarray(a, np.float64), np.asarray(b, np.float64)
    if a.shape != b.shape:
        return False
    fin = np.isfinite(a) & np.isfinite(b)
    if not np.array_equal(np.isfinite(a), np.isfinite(b)) and not np.all((a == b)[~fin]):
        return False
    sc = (1 + np.abs(b)) if scale is None else scale
    return bool(np.all(np.abs(a - b)[fin] <= (tol * sc)[fin] if np.ndim(sc) else np.abs(a - b)[fin] <= tol * sc))


def check_dist(dist, c, key, who, ctx, numinv_fwd=False, numinv_inv=False, fwd_only=None):
    """c: condition array (or None) of shape dist.cond_shape."""
    cj_all = None if c is None else jnp.asarray(c)
    cb, cj = split_cond(dist, cj_all)
    bij, base = dist.bijection, dist.base_dist
    tol = TOL * (1e3 if (numinv_fwd or numinv_inv) else 1)
    nontrivial = False
    # conditioning guard (cf. C08): a bijection that (de)magnifies by more than e^15 in volume at the
    # sampled point is rounding-dominated (typically a barely invertible conditional planar layer)
    try:
        zb0 = base.sample(key, (), cb) if base.cond_shape is not None else base.sample(key)
        ld0 = float((bij.transform_and_log_det if fwd_only != "inverse" else bij.inverse_and_log_det)(zb0, cj)[1])
        if not np.isfinite(ld0) or abs(ld0) > 15.0:
            ctx.inconcl("ill_conditioned")
            return False
    except NotImplementedError:
        pass
    # (2) sampling path -----------------------------------------------------------------------------
    if fwd_only != "inverse":
        s = lib_call(f"C03|{who}|sample", dist.sample, key, (), cj_all)
        zb = base.sample(key, (), cb) if base.cond_shape is not None else base.sample(key)
        want = lib_call(f"C03|{who}|bijection.transform", bij.transform, zb, cj)
        if not np.all(np.isfinite(np.asarray(want))):
            ctx.inconcl("nonfinite_sample")
            return False
        if not close(s, want, tol, 1 + np.abs(np.asarray(want))):
            raise Violation(f"C03|{who}|sample_is_transform_of_base_sample",
                            f"sample {np.asarray(s).tolist()} vs bijection(base sample) {np.asarray(want).tolist()}")
        if float(np.max(np.abs(np.asarray(s) - np.asarray(zb)), initial=0)) > 1e-6:
            nontrivial = True
        x = s
    else:
        x = base.sample(key, (), cb) if base.cond_shape is not None else base.sample(key)
    # (1) density path --------------------------------------------------------------------------------
    if fwd_only != "transform":
        lp = float(lib_call(f"C03|{who}|log_prob", dist.log_prob, x, cj_all))
        z, ld = lib_call(f"C03|{who}|bijection.inverse_and_log_det", bij.inverse_and_log_det, x, cj)
        pz = float(base.log_prob(z, cb)) if base.cond_shape is not None else float(base.log_prob(z))
        ld = float(ld)
        if np.isfinite(pz) and np.isfinite(ld):
            if not abs(lp - (pz + ld)) <= tol * (1 + abs(pz) + abs(ld)):
                raise Violation(f"C03|{who}|log_prob_change_of_variables",
                                f"log_prob {lp!r} != base log-density {pz!r} + inverse log-det {ld!r}")
            # autodiff variant: -log|det d transform/dz| at z
            if fwd_only is None and not numinv_inv:
                subj = bc.Subject("x", who, bij, np.asarray(z), None if cj is None else np.asarray(cj), numinv=numinv_fwd)
                J = bc.jac_transform(subj, np.asarray(z), np.asarray(x))
                if np.all(np.isfinite(J)) and np.linalg.cond(J) < 1e10:
                    ld_ad = -float(np.linalg.slogdet(J)[1])
                    t2 = (1e-7 * (1 + abs(ld_ad)) + 64 * bc.EPS * J.shape[0] * np.linalg.cond(J)) * (1e3 if numinv_fwd else 1)
                    if abs(ld - ld_ad) > t2 and not _kink_ok(subj, z, x, ld, t2):
                        raise Violation(f"C03|{who}|log_prob_vs_autodiff_jacobian",
                                        f"inverse log-det {ld!r} but -log|det J_transform(z)| = {ld_ad!r}; log_prob={lp!r}")
                    if abs(ld) > 1e-3:
                        nontrivial = True
                else:
                    ctx.inconcl("ill_conditioned")
    # (3) joint path --------------------------------------------------------------------------------------
    if fwd_only is None:
        s3, l3 = lib_call(f"C03|{who}|sample_and_log_prob", dist.sample_and_log_prob, key, (), cj_all)
        if not close(s3, x, tol, 1 + np.abs(np.asarray(x))):
            raise Violation(f"C03|{who}|sample_and_log_prob.sample", f"{np.asarray(s3).tolist()} vs sample {np.asarray(x).tolist()}")
        lps = float(dist.log_prob(s3, cj_all))
        if np.isfinite(lps) and not abs(float(l3) - lps) <= tol * 10 * (1 + abs(lps)):
            raise Violation(f"C03|{who}|sample_and_log_prob.log_prob", f"returned {float(l3)!r}, log_prob(sample) = {lps!r}")
    return nontrivial


def _kink_ok(subj, z, x, ld, tol):
    def _ld_at(zn):
        Jn = bc.jac_transform(subj, zn)
        return -float(np.linalg.slogdet(Jn)[1]) if np.all(np.isfinite(Jn)) else np.inf
    return bc.kink_match(_ld_at, z, [], ld, tol + 1e-5 * (1 + abs(ld)))


# ------------------------------------------------------------------------------------------------------
def oracle_hand(c, ctx):
    node = bd.build(c["tree"], float(c["pscale"]))
    if np.any(node.dom != bd.R):
        ctx.inconcl("restricted_domain_tree")
        return
    bname = c["base"]
    cond = node.cond_shape
    if bname == "condbase":
        cond = node.cond_shape if node.cond_shape is not None else (2,)
    base = base_dist(bname, node.shape, int(c["seed"]), cond)
    dist = lib_call("C03|Transformed|construct", D.Transformed, base, node.obj)
    cshape = dist.cond_shape
    cc = bd.make_cond(c["craw"], cshape)
    who = f"hand|{bname}|{node.kind}"
    nt = check_dist(dist, cc, jr.PRNGKey(int(c["key"])), who, ctx, numinv_inv=node.numinv,
                    fwd_only=None if node.invertible else "transform")
    ctx.hist("base", bname)
    ctx.hist("cond_combo", f"base={'c' if base.cond_shape is not None else 'u'},bij={'c' if node.cond_shape is not None else 'u'}")
    # (5) merge_transforms
    if isinstance(base, D.AbstractTransformed) and node.invertible:
        m = lib_call("C03|merge_transforms", dist.merge_transforms)
        if isinstance(m.base_dist, D.AbstractTransformed):
            raise Violation("C03|merge_transforms|base_still_transformed", type(m.base_dist).__name__)
        key = jr.PRNGKey(int(c["key"]))
        cj = None if cc is None else jnp.asarray(cc)
        a, b = dist.sample(key, (), cj), m.sample(key, (), cj)
        if not close(a, b, TOL * 10, 1 + np.abs(np.asarray(a))):
            raise Violation("C03|merge_transforms|sample", f"{np.asarray(a).tolist()} vs {np.asarray(b).tolist()}")
        la, lb = float(dist.log_prob(a, cj)), float(m.log_prob(a, cj))
        if np.isfinite(la) and not abs(la - lb) <= TOL * 10 * (1 + abs(la)):
            raise Violation("C03|merge_transforms|log_prob", f"{la!r} vs {lb!r}")
        ctx.hist("merge_transforms", bname)
    if nt:
        ctx.mark_nontrivial(c)


class Recorder(eqx.Module):
    inner: AutoregressiveBisectionInverter
    log: list = eqx.field(static=True)

    def __call__(self, bijection, y, condition=None):
        self.log.append(1)
        return self.inner(bijection, y, condition)


def oracle_flow(c, ctx):
    sp = c["spec"]
    f = sp["factory"]
    flow = bd.build_flow(sp)
    dim = int(sp["dim"])
    cc = bd.make_cond(c["craw"], flow.cond_shape)
    numinv = f == "block_neural_autoregressive_flow"
    tanh_planar = f == "planar_flow" and sp.get("negative_slope") is None
    fwd_only = None
    if tanh_planar:
        fwd_only = "inverse" if sp["invert"] else "transform"  # only log_prob (invert) / only sampling (not invert)
    who = f"flow|{f}|invert={sp['invert']}"
    key = jr.PRNGKey(int(c["key"]))
    nt = check_dist(flow, cc, key, who, ctx, numinv_fwd=numinv and sp["invert"], numinv_inv=numinv and not sp["invert"],
                    fwd_only=fwd_only)
    cj = None if cc is None else jnp.asarray(cc)
    # (4) orientation ------------------------------------------------------------------------------------
    other = bd.build_flow(dict(sp, invert=not sp["invert"]))
    x = bd.make_input(c["xraw"], [-1], [], (dim,), np.zeros(dim, int), 1.0)
    if tanh_planar:
        good, bad = (flow.log_prob, flow.sample) if sp["invert"] else (flow.sample, flow.log_prob)
        if sp["invert"]:
            lib_call(f"C03|{who}|log_prob", flow.log_prob, jnp.asarray(x), cj)
            expect_raises(f"C03|{who}|sample_should_be_unimplemented", flow.sample, key, (), cj)
        else:
            lib_call(f"C03|{who}|sample", flow.sample, key, (), cj)
            expect_raises(f"C03|{who}|log_prob_should_be_unimplemented", flow.log_prob, jnp.asarray(x), cj)
    else:
        T, F = (flow, other) if sp["invert"] else (other, flow)  # T: invert=True, F: invert=False
        if not numinv:
            a = lib_call(f"C03|{who}|orientation", T.bijection.transform, jnp.asarray(x), cj)
            b = lib_call(f"C03|{who}|orientation", F.bijection.inverse, jnp.asarray(x), cj)
            if np.all(np.isfinite(np.asarray(b))) and not close(a, b, 1e-7, 1 + np.abs(np.asarray(b))):
                raise Violation(f"C03|flow|{f}|orientation", "invert=True bijection is not the inverse of the invert=False bijection "
                                                             f"built from the same key: {np.asarray(a).tolist()} vs {np.asarray(b).tolist()}")
        else:
            log = []
            rec = Recorder(AutoregressiveBisectionInverter(), log)
            kw = dict(base_dist=D.StandardNormal((dim,)), cond_dim=sp.get("cond_dim"), nn_depth=int(sp.get("depth", 1)),
                      nn_block_dim=int(sp.get("block_dim", 3)), flow_layers=int(sp.get("layers", 2)), inverter=rec)
            ft = flows.block_neural_autoregressive_flow(jr.PRNGKey(int(sp.get("key", 0))), invert=True, **kw)
            ft.log_prob(jnp.asarray(x), cj)
            if log:
                raise Violation("C03|flow|bnaf|invert=True|log_prob_uses_search", f"{len(log)} inverter calls")
            ft.sample(key, (), cj)
            n_samp = len(log)
            ff = flows.block_neural_autoregressive_flow(jr.PRNGKey(int(sp.get("key", 0))), invert=False, **kw)
            log.clear()
            ff.sample(key, (), cj)
            ff.sample_and_log_prob(key, (), cj)
            if log:
                raise Violation("C03|flow|bnaf|invert=False|sample_uses_search", f"{len(log)} inverter calls")
            if n_samp == 0:
                raise Violation("C03|flow|bnaf|invert=True|sample_without_search", "sampling did not call the inverter")
    ctx.hist("factory", f"{f}/invert={sp['invert']}/cond={sp.get('cond_dim') is not None}")
    if nt and float(sp.get("pscale", 0)) > 0:
        ctx.mark_nontrivial(c)


def oracle(c, ctx):
    ctx.evaluated()
    (oracle_flow if "spec" in c else oracle_hand)(c, ctx)
    if ctx.evaluations % 29 == 1:
        ctx.sample(c)


def replay(spec, ctx):
    oracle(spec.get("spec", spec) if ("tree" not in spec and "inp" not in spec and "craw" not in spec) else spec, ctx)


BASES = ["StandardNormal", "Normal", "Laplace", "Logistic", "Gumbel", "StudentT", "Uniform", "Exponential", "Cauchy", "mixture",
         "nested", "nested", "condbase", "condbase"]


@st.composite
def hand_cases(draw):
    shape = draw(st.sampled_from([(), (2,), (3,), (2, 2)]))
    base = draw(st.sampled_from(BASES))
    cond = draw(st.sampled_from([None, (2,), (2,)])) if base != "condbase" else draw(st.sampled_from([None, (2,)]))
    return {"tree": draw(gen.tree(shape, cond, 2, 5, numinv=False)), "base": base, "pscale": draw(gen.PSCALES),
            "seed": draw(st.integers(0, 999)), "key": draw(st.integers(0, 10**6)),
            "craw": draw(st.lists(st.floats(-2, 2), min_size=5, max_size=5))}


@st.composite
def flow_cases(draw):
    return {"spec": draw(gen.flow_spec(3)), "key": draw(st.integers(0, 10**6)),
            "craw": draw(st.lists(st.floats(-2, 2), min_size=5, max_size=5)),
            "xraw": draw(st.lists(st.floats(-2, 2), min_size=3, max_size=3))}


@st.composite
def planar_cases(draw):
    sp = draw(gen.flow_spec(3, ["planar_flow"]))
    sp["cond_dim"] = None
    sp["negative_slope"] = draw(st.sampled_from([0.1, 0.5, 1.0]))
    sp["pscale"] = draw(st.sampled_from([1.0, 2.0, 2.0]))
    return {"spec": sp, "key": draw(st.integers(0, 10**6)), "craw": [0.0], "xraw": draw(st.lists(st.floats(-2, 2), min_size=3, max_size=3))}


def run(ctx):
    q = ctx.tier == "quick"
    run_hypothesis(ctx, hand_cases(), oracle, 45 if q else 350, "C03-hand")
    run_hypothesis(ctx, flow_cases(), oracle, 14 if q else 100, "C03-flows")
    # leaky-relu planar flows far from their 0.01*N(0,1) initialisation: both evaluation paths exist only there
    run_hypothesis(ctx, planar_cases(), oracle, 5 if q else 40, "C03-planar-far-from-init")
