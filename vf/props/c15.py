"""C15 - fit_to_data never loses, duplicates or misaligns data.

Instrumentation through public extension points only: rows are tagged (x[i] = (i, 10 i), condition[i]
= (i + 1000,)); the model is a vector theta in R^n; the user loss is sum_{rows in batch} theta[tag(row)]
and reports (x, condition, key, theta) through an ordered jax.debug.callback; the user optimiser is
`updates = grads`, so a loss call is a GRADIENT call iff theta differs at the next call, and theta[i]
counts the gradient steps row i took part in.  Nothing about fit_to_data's internals is assumed."""
import equinox as eqx
import jax
import jax.numpy as jnp
import jax.random as jr
import numpy as np
import optax
from hypothesis import strategies as st

from flowjax.train import fit_to_data
from flowjax.train.train_utils import get_batches, train_val_split
from vf.core import Violation, lib_call, run_hypothesis, shard

LOG = []


class Theta(eqx.Module):
    theta: jax.Array


def _record(x, cond, key, theta):
    LOG.append((np.asarray(x).copy(), None if cond is None else np.asarray(cond).copy(), np.asarray(key).copy(),
                np.asarray(theta).copy()))


def loss_cond(params, static, x, condition=None, key=None):
    m = eqx.combine(params, static)
    idx = x[:, 0].astype(jnp.int32)
    jax.debug.callback(_record, x, condition, key, m.theta, ordered=True)
    return jnp.sum(m.theta[idx])


def loss_uncond(params, static, x, condition=None, key=None):
    m = eqx.combine(params, static)
    idx = x[:, 0].astype(jnp.int32)
    jax.debug.callback(lambda a, k, t: _record(a, None, k, t), x, key, m.theta, ordered=True)
    return jnp.sum(m.theta[idx])


ADD_GRADS = optax.GradientTransformation(lambda params: (), lambda grads, state, params=None: (grads, state))


def run_fit(n, bs, vp, epochs, with_cond, key):
    LOG.clear()
    x = jnp.stack([jnp.arange(n, dtype=float), 10.0 * jnp.arange(n, dtype=float)], axis=1)
    cond = (jnp.arange(n, dtype=float) + 1000.0)[:, None] if with_cond else None
    out, losses = lib_call("C15|fit_to_data", fit_to_data, jr.PRNGKey(key), Theta(jnp.zeros(n)), x, condition=cond,
                           loss_fn=loss_cond if with_cond else loss_uncond, max_epochs=epochs, max_patience=10**6,
                           batch_size=bs, val_prop=vp, optimizer=ADD_GRADS, return_best=False, show_progress=False)
    jax.effects_barrier()
    return list(LOG), np.asarray(out.theta), losses


def oracle(c, ctx):
    ctx.evaluated()
    n, bs, vp, epochs, wc = int(c["n"]), int(c["batch_size"]), float(c["val_prop"]), int(c["epochs"]), bool(c["cond"])
    n_val = round(vp * n)
    n_train = n - n_val
    assert 0 < n_val < n
    log, theta_end, losses = run_fit(n, bs, vp, epochs, wc, int(c["key"]))
    b, bv = min(bs, n_train), min(bs, n_val)
    nb, nvb = n_train // b, n_val // bv
    spec = f"n={n} batch_size={bs} val_prop={vp} epochs={epochs} cond={wc}"
    # ---- pairing of x with its own condition row, in every call ----------------------------------
    for x, cond, key, th in log:
        if not np.array_equal(x[:, 1], 10.0 * x[:, 0]):
            raise Violation("C15|row_integrity", f"columns of x misaligned: {x.tolist()}; {spec}")
        if wc and (cond is None or not np.array_equal(cond[:, 0], x[:, 0] + 1000.0)):
            raise Violation("C15|x_condition_pairing", f"x tags {x[:, 0].tolist()} paired with condition tags "
                                                        f"{None if cond is None else (cond[:, 0] - 1000).tolist()}; {spec}")
    # ---- classify calls: gradient call iff theta changed before the next call ---------------------
    thetas = [th for *_, th in log] + [theta_end]
    is_grad = [not np.array_equal(thetas[j], thetas[j + 1]) for j in range(len(log))]
    rows = [x[:, 0].astype(int) for x, *_ in log]
    for j, g in enumerate(is_grad):
        if g:
            inc = thetas[j + 1] - thetas[j]
            want = np.bincount(rows[j], minlength=n).astype(float)
            if not np.array_equal(inc, want):
                raise Violation("C15|gradient_rows", f"update touched rows {np.nonzero(inc)[0].tolist()} "
                                                     f"but the loss was handed rows {sorted(rows[j].tolist())}; {spec}")
    # ---- epoch structure: [nb gradient calls, nvb plain calls] x epochs --------------------------
    pattern = ([True] * nb + [False] * nvb) * epochs
    if is_grad != pattern:
        raise Violation("C15|call_pattern",
                        f"observed gradient/plain call pattern {''.join('G' if g else 'v' for g in is_grad)}, expected "
                        f"({'G' * nb}{'v' * nvb})x{epochs} (train batches of {b}, validation batches of {bv}); {spec}")
    T, V = set(), set()
    per = nb + nvb
    for e in range(epochs):
        tr = np.concatenate([rows[e * per + k] for k in range(nb)]) if nb else np.array([], int)
        va = np.concatenate([rows[e * per + nb + k] for k in range(nvb)]) if nvb else np.array([], int)
        for k in range(nb):
            if len(rows[e * per + k]) != b:
                raise Violation("C15|batch_size", f"train batch of {len(rows[e * per + k])} rows, expected {b}; {spec}")
        for k in range(nvb):
            if len(rows[e * per + nb + k]) != bv:
                raise Violation("C15|batch_size", f"validation batch of {len(rows[e * per + nb + k])}, expected {bv}; {spec}")
        if len(set(tr.tolist())) != len(tr):
            raise Violation("C15|train_row_repeated_in_epoch", f"epoch {e}: {sorted(tr.tolist())}; {spec}")
        if len(set(va.tolist())) != len(va):
            raise Violation("C15|val_row_repeated_in_epoch", f"epoch {e}: {sorted(va.tolist())}; {spec}")
        T |= set(tr.tolist())
        V |= set(va.tolist())
    if T & V:
        raise Violation("C15|validation_row_in_gradient_step", f"rows {sorted(T & V)} were used both for gradient steps and "
                                                               f"for validation; {spec}")
    if len(T) > n_train or len(V) > n_val:
        raise Violation("C15|partition_sizes", f"{len(T)} distinct training rows (split has {n_train}), {len(V)} distinct "
                                               f"validation rows (split has {n_val}); {spec}")
    if nb * b == n_train and len(T) != n_train:
        raise Violation("C15|partition_sizes", f"no remainder, yet only {len(T)} of {n_train} training rows used; {spec}")
    if nvb * bv == n_val and len(V) != n_val:
        raise Violation("C15|partition_sizes", f"no remainder, yet only {len(V)} of {n_val} validation rows used; {spec}")
    if np.any(theta_end > epochs) or np.any(theta_end[sorted(V)] != 0):
        raise Violation("C15|gradient_count", f"theta={theta_end.tolist()} epochs={epochs} validation rows={sorted(V)}; {spec}")
    if set(range(n)) - T - V and nb * b == n_train and nvb * bv == n_val:
        raise Violation("C15|rows_lost", f"rows {sorted(set(range(n)) - T - V)} never seen; {spec}")
    # ---- keys -------------------------------------------------------------------------------------
    keys = [tuple(np.asarray(k).reshape(-1).tolist()) for _, _, k, _ in log]
    if len(set(keys)) != len(keys):
        raise Violation("C15|key_reused", f"{len(keys) - len(set(keys))} loss calls received a key already used; {spec}")
    # ---- losses record ------------------------------------------------------------------------------
    if len(losses["train"]) != epochs or len(losses["val"]) != epochs:
        raise Violation("C15|losses_length", f"{len(losses['train'])} train / {len(losses['val'])} val entries for "
                                             f"{epochs} epochs; {spec}")
    # ---- reproducibility ------------------------------------------------------------------------------
    if c.get("rerun"):
        log2, theta2, _ = run_fit(n, bs, vp, epochs, wc, int(c["key"]))
        same = len(log2) == len(log) and all(np.array_equal(a[0], b_[0]) and np.array_equal(a[2], b_[2])
                                             for a, b_ in zip(log, log2)) and np.array_equal(theta2, theta_end)
        if not same:
            raise Violation("C15|not_reproducible", f"same key, different run; {spec}")
    if n_train % b != 0 or wc or epochs > 1:
        ctx.mark_nontrivial(c)
    ctx.hist("remainder", n_train % b != 0)
    ctx.hist("val_batches", nvb)
    ctx.hist("train_batches", nb)
    if ctx.evaluations % 19 == 1:
        ctx.sample(c)


# ---- the two public helpers, exhaustively over small sizes ------------------------------------------
def oracle_utils(c, ctx):
    ctx.evaluated()
    n, vp, bs = int(c["n"]), float(c["val_prop"]), int(c["batch_size"])
    x = jnp.arange(n, dtype=float)
    cond = jnp.stack([x + 1000.0, -x], axis=1)
    (tx, tc), (vx, vc) = lib_call("C15|train_val_split", train_val_split, jr.PRNGKey(int(c["key"])), (x, cond), vp)
    tx, tc, vx, vc = (np.asarray(a) for a in (tx, tc, vx, vc))
    n_val = round(vp * n)
    if len(vx) != n_val or len(tx) != n - n_val:
        raise Violation("C15|train_val_split|sizes", f"{len(tx)}/{len(vx)} for n={n} val_prop={vp}")
    if sorted(tx.tolist() + vx.tolist()) != list(range(n)):
        raise Violation("C15|train_val_split|partition", f"train {sorted(tx.tolist())} val {sorted(vx.tolist())} n={n}")
    if not (np.array_equal(tc[:, 0], tx + 1000) and np.array_equal(vc[:, 0], vx + 1000) and np.array_equal(tc[:, 1], -tx)):
        raise Violation("C15|train_val_split|pairing", "arrays permuted differently")
    bx, bc = lib_call("C15|get_batches", get_batches, (jnp.asarray(tx), jnp.asarray(tc)), bs)
    bx, bc = np.asarray(bx), np.asarray(bc)
    b = min(bs, len(tx))
    nb = len(tx) // b
    if bx.shape != (nb, b) or bc.shape != (nb, b, 2):
        raise Violation("C15|get_batches|shape", f"{bx.shape} for data_len={len(tx)} batch_size={bs}")
    if not np.array_equal(bx.reshape(-1), tx[: nb * b]) or not np.array_equal(bc.reshape(-1, 2), tc[: nb * b]):
        raise Violation("C15|get_batches|rows", "batches are not the leading rows in order (trailing remainder dropped)")
    if len(tx) % b:
        ctx.mark_nontrivial(c)


def replay(spec, ctx):
    spec = spec.get("spec", spec) if "n" not in spec else spec
    (oracle_utils if spec.get("utils") else oracle)(spec, ctx)


VPS = [0.05, 0.1, 0.2, 0.25, 0.3, 0.4, 0.5, 0.6, 0.75, 0.9]


@st.composite
def fit_cases(draw):
    n = draw(st.integers(2, 60))
    vps = [v for v in VPS if 0 < round(v * n) < n]
    vp = draw(st.sampled_from(vps))
    nt = n - round(vp * n)
    cands = sorted({b for b in (1, 2, 3, 4, 5, 7, nt // 3, nt // 2, nt // 2 + 1, nt - 1, nt, round(vp * n), n, n + 5) if b >= 1})
    bs = draw(st.one_of(st.sampled_from(cands), st.integers(1, n + 5)))
    return {"n": n, "batch_size": bs, "val_prop": vp, "epochs": draw(st.integers(1, 4)),
            "cond": draw(st.booleans()), "key": draw(st.integers(0, 10**6)), "rerun": draw(st.integers(0, 5)) == 0}


def util_cases(nmax):
    for n in range(2, nmax + 1):
        for vp in VPS:
            if not 0 < round(vp * n) < n:
                continue
            for bs in sorted({1, 2, 3, n // 3 + 1, n // 2, n - 1, n, n + 5}):
                if bs >= 1:
                    yield {"utils": True, "n": n, "val_prop": vp, "batch_size": bs, "key": n * 31 + bs}


def run(ctx):
    q = ctx.tier == "quick"
    k = 0
    for c in shard(util_cases(30 if q else 60), ctx):
        try:
            oracle_utils(c, ctx)
        except Violation as v:
            ctx.fail(v.signature, c, v.detail)
        k += 1
        ctx.housekeeping(200)
    ctx.exhaustive["train_val_split/get_batches grid"] = k
    run_hypothesis(ctx, fit_cases(), oracle, 45 if q else 450, "C15-fit")
