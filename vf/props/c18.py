"""C18 - finite log-probabilities have finite gradients; log_prob is never NaN.

Subjects: Transformed(StandardNormal, b) and Transformed(StandardNormal, Invert(b)) for every leaf b,
expression trees, and the premade flows; inputs from a boundary-directed set (every value the
implementation compares against and its float neighbours, 0, +-1, 10^k up to 1e4) mixed coordinate-wise
with ordinary values; float64 and float32 workers."""
import equinox as eqx
import jax
import jax.numpy as jnp
import numpy as np
from hypothesis import strategies as st

from flowjax import bijections as B
from flowjax.distributions import StandardNormal, Transformed
from vf import bijcase as bc
from vf import build as bd
from vf import gen
from vf.core import Violation, lib_call, run_hypothesis

BIG = [10.0, -10.0, 100.0, -100.0, 1e3, -1e3, 1e4, -1e4, 1.0, -1.0, 0.0, 3.0, -3.0]


def check(dist, x, c, who, ctx, grad_params=True, grad_x=True):
    xj = jnp.asarray(x)
    cj = None if c is None else jnp.asarray(c)
    lp = np.asarray(lib_call(f"C18|{who}|log_prob", dist.log_prob, xj, cj))
    if np.any(np.isnan(lp)):
        raise Violation(f"C18|{who}|log_prob_nan", f"log_prob({x.tolist()}, {None if c is None else c.tolist()}) is NaN")
    if lp.shape != ():
        raise Violation(f"C18|{who}|log_prob_shape", f"{lp.shape}")
    if not np.isfinite(lp):
        ctx.hist("log_prob", "-inf" if lp < 0 else "+inf")
        if lp > 0:
            raise Violation(f"C18|{who}|log_prob_plus_inf", f"log_prob({x.tolist()}) = +inf")
        return False
    ctx.hist("log_prob", "finite")
    if grad_x:
        gx = np.asarray(lib_call(f"C18|{who}|grad_x", jax.grad(lambda v: dist.log_prob(v, cj)), xj))
        if not np.all(np.isfinite(gx)):
            raise Violation(f"C18|{who}|grad_x_nonfinite",
                            f"log_prob({x.tolist()}, {None if c is None else c.tolist()}) = {float(lp)!r} but d/dx = {gx.tolist()}")
    if grad_params:
        gp = lib_call(f"C18|{who}|grad_params", eqx.filter_grad(lambda d: d.log_prob(xj, cj)), dist)
        bad = [np.asarray(l) for l in jax.tree_util.tree_leaves(gp) if not np.all(np.isfinite(np.asarray(l)))]
        if bad:
            raise Violation(f"C18|{who}|grad_params_nonfinite",
                            f"log_prob({x.tolist()}, {None if c is None else c.tolist()}) = {float(lp)!r} but a parameter "
                            f"gradient is {bad[0].tolist()}")
    return True


def oracle(case, ctx):
    ctx.evaluated()
    s = bc.prepare(case)
    inp = case["inp"]
    pool = list(s.pool) + BIG
    shape = np.shape(s.x)
    x = bd.make_input(inp["xraw"], inp["xpick"], pool, shape, np.zeros(shape, int), inp["sigma"])  # ANY real input
    on_boundary = bc._picked(inp, int(np.prod(shape)) if shape else 1)
    finite_any = False
    if s.kind == "flow":
        numinv_logprob = s.numinv and not case["spec"]["invert"]
        tanh_planar = case["spec"]["factory"] == "planar_flow" and case["spec"].get("negative_slope") is None
        if tanh_planar and not case["spec"]["invert"]:
            ctx.inconcl("log_prob_needs_unimplemented_inverse")
            return
        if numinv_logprob:
            ctx.exclude("bisection_direction_gradient")
        finite_any |= check(s.flow, x, s.c, f"flow|{s.name}", ctx, grad_params=not numinv_logprob, grad_x=not numinv_logprob)
    else:
        base = StandardNormal(shape)
        # orientation A: density through b.inverse ; orientation B: through b.transform (Invert(b))
        if s.invertible:
            if s.numinv:
                ctx.exclude("bisection_direction_gradient")
            finite_any |= check(Transformed(base, s.obj), x, s.c, f"{s.kind}|{s.name}|forward", ctx,
                                grad_params=not s.numinv, grad_x=not s.numinv)
        xd = bd.to_domain(x, s.dom) if s.dom is not None else x  # Invert(b).inverse = b.transform needs x in b's domain
        finite_any |= check(Transformed(base, B.Invert(s.obj)), xd, s.c, f"{s.kind}|{s.name}|inverted", ctx)
    ctx.hist(f"{s.kind}_kind", s.name)
    if on_boundary and finite_any:
        ctx.mark_nontrivial(case)
    if ctx.evaluations % 37 == 1:
        ctx.sample(case)


def replay(spec, ctx):
    oracle(spec.get("spec", spec) if "kind" not in spec else spec, ctx)


def bnaf_activation_cases():
    from hypothesis import strategies as st_

    @st_.composite
    def f(draw):
        d = draw(st_.integers(1, 3))
        return {"kind": "leaf", "spec": {"k": "BNAF", "shape": [d], "seed": draw(gen.SEEDS), "depth": draw(st_.integers(1, 2)),
                                         "block_dim": draw(st_.integers(1, 3)), "activation": draw(st_.sampled_from(["tanh", "tanh", "softplus_fn"])),
                                         "cond": draw(st_.sampled_from([None, [2]]))},
                "pscale": draw(st_.sampled_from([0.0, 0.3, 1.0])), "inp": draw(gen.inputs())}
    return f()


def run(ctx):
    q = ctx.tier == "quick"
    run_hypothesis(ctx, bnaf_activation_cases(), oracle, 10 if q else 60, "C18-bnaf-activations")
    run_hypothesis(ctx, bc.leaf_cases(inv=False), oracle, 50 if q else 600, "C18-leaves")
    run_hypothesis(ctx, bc.tree_cases(3, 7, inv=False) if q else bc.tree_cases(4, 12, inv=False), oracle, 12 if q else 150,
                   "C18-trees")
    run_hypothesis(ctx, bc.flow_cases(), oracle, 4 if q else 40, "C18-flows")
