"""C18 - finite log-probabilities have finite gradients; log_prob is never NaN.

Subjects: Transformed(StandardNormal, b) and Transformed(StandardNormal, Invert(b)) for every leaf b,
expression trees, and the premade flows; inputs from a boundary-directed set (every value the
implementation compares against and its float neighbours, 0, +-1, 10^k up to 1e4) mixed coordinate-wise
with ordinary values; float64 and float32 workers."""
import equinox as eqx
import jax
import jax.numpy as jnp
import numpy as np
from hypothesis import strategies as st

from flowjax import bijections as B
from flowjax.distributions import StandardNormal, Transformed
from vf import bijcase as bc
from vf import build as bd
from vf import gen
from vf.core import Violation, lib_call, run_hypothesis

BIG = [10.0, -10.0, 100.0, -100.0, 1e3, -1e3, 1e4, -1e4, 1.0, -1.0, 0.0, 3.0, -3.0]


def check(dist, x, c, who, ctx, grad_params=True, grad_x=True):
    xj = jnp.asarray(x)
    cj = None if c is None else jnp.asarray(c)
    lp = np.asarray(lib_call(f"C18|{who}|log_prob", dist.log_prob, xj, cj))
    if np.any(np.isnan(lp)):
        raise Violation(f"C18|{who}|log_prob_nan", f"log_prob({x.tolist()}, {None if c is None else c.tolist()}) is NaN")
    if lp.shape != ():
        raise Violation(f"C18|{who}|log_prob_shape", f"{lp.shape}")
    if not np.isfinite(lp):
        ctx.hist("log_prob", "-inf" if lp < 0 else "+inf")
        if lp > 0:
            raise Violation(f"C18|{who}|log_prob_plus_inf", f"log_prob({x.tolist()}) = +inf")
        return False
    ctx.hist("log_prob", "finite")
    if grad_x:
        gx = np.asarray(lib_call(f"C18|{who}|grad_x", jax.grad(lambda v: dist.log_prob(v, cj)), xj))
        if not np.all(np.isfinite(gx)):
            raise Violation(f"C18|{who}|grad_x_nonfinite",
                            f"log_prob({x.tolist()}, {None if c is None else c.tolist()}) = {float(lp)!r} but d/dx = {gx.tolist()}")
    if grad_params:
        gp = lib_call(f"C18|{who}|grad_params", eqx.filter_grad(lambda d: d.log_prob(xj, cj)), dist)
        bad = [np.asarray(l) for l in jax.tree_util.tree_leaves(gp) if not np.all(np.isfinite(np.asarray(l)))]
        if bad:
            raise Violation(f"C18|{who}|grad_params_nonfinite",
                            f"log_prob({x.tolist()}, {None if c is None else c.tolist()}) = {float(lp)!r} but a parameter "
                            f"gradient is {bad[0].tolist()}")
    return True


# ---------------------------------------------------------------------------------------------------
# named families and mixtures ("every distribution"): log_prob never NaN, finite => finite gradients
# ---------------------------------------------------------------------------------------------------
KINDS = ["bulk", "tail", "edge", "edge+", "edge-", "outside"]
GUMBEL_OVERFLOW = 85.0 if bd.shim.F32 else 700.0  # exp(-z) overflows beyond: see the open finding C18|Mixture[Gumbel]|component_overflow


def _family_points(fam, pb, ev, kinds, z):
    from vf.props import c05
    n = int(np.prod(ev)) if ev else 1
    kk = np.asarray([kinds[i % len(kinds)] for i in range(n)]).reshape(ev)
    zz = np.asarray([z[i % len(z)] * (1 + 0.13 * (i // len(z))) for i in range(n)]).reshape(ev)
    x = np.zeros(ev, np.float64)
    for kd in set(kk.reshape(-1).tolist()):
        x = np.where(kk == kd, np.broadcast_to(c05.support_point(fam, pb, kd, zz), ev), x)
    if bd.shim.F32:
        x = x.astype(np.float32).astype(np.float64)
    return x, kk


def oracle_family(case, ctx):
    from vf.props import c05
    c = case["c"]
    fam = c["fam"]
    if fam == "Mixture":
        return oracle_mixture(case, ctx)
    shapes = [tuple(s) for s in c["shapes"]]
    p = c05.params_for(fam, shapes, c05.cyc(c["vals"]))
    dist = lib_call(f"C18|dist|{fam}|construct", c05.construct, fam, p)
    ev = np.broadcast_shapes(*[np.shape(v) for v in p.values()])
    pb = {k: np.broadcast_to(v, ev) for k, v in p.items()}
    x, kk = _family_points(fam, pb, ev, c["kinds"], c["z"])
    finite = check(dist, x, None, f"dist|{fam}", ctx)
    ctx.hist("family", fam)
    for kd in set(kk.reshape(-1).tolist()):
        ctx.hist("family_point_class", kd)
    if finite and any(k != "bulk" for k in kk.reshape(-1).tolist()):
        ctx.mark_nontrivial(case)


def oracle_mixture(case, ctx):
    from flowjax import distributions as D
    from vf.props import c05
    c = case["c"]
    fam, k, ev = c["comp"], int(c["k"]), tuple(c["ev"])
    shp = (k,) + ev
    p = c05.params_for(fam, [shp, shp, shp], c05.cyc(c["vals"]))
    p = {kk: (np.clip(v, 0.05, 20) if kk in ("scale", "rate") else v) for kk, v in p.items()}
    if fam == "Uniform":
        p["maxval"] = p["minval"] + np.clip(p["maxval"] - p["minval"], 0.05, 20)
    w = np.exp(np.asarray(c["w"], np.float64) * 2.3)
    comp = eqx.filter_vmap(lambda q: c05.construct(fam, q))({kk: jnp.asarray(v) for kk, v in p.items()})
    j = int(c["around"]) % k  # points are placed relative to component j: inside it, on its edges, outside its support
    pj = {kk: v[j] for kk, v in p.items()}
    x, kinds = _family_points(fam, pj, ev, c["kinds"], c["z"])
    who = f"dist|Mixture[{fam}]"
    shift = float(c.get("shift") or 0.0)
    if shift and fam in ("LogNormal", "Exponential"):
        # components with DIFFERENT supports (shifted half-lines): a point can lie inside some supports and outside others
        sh = np.arange(k, dtype=np.float64) * shift
        comp = eqx.filter_vmap(lambda q, l: D.Transformed(c05.construct(fam, q), B.Loc(jnp.broadcast_to(l, ev))))(
            {kk: jnp.asarray(v) for kk, v in p.items()}, jnp.asarray(sh))
        x = x + sh[j]
        who = f"dist|Mixture[shifted {fam}]"
    mix = lib_call("C18|dist|Mixture|construct", D.VmapMixture, comp, jnp.asarray(w))
    if fam == "Gumbel" and np.any((x - p["loc"]) / p["scale"] < -GUMBEL_OVERFLOW):
        # open finding: a component whose own log-density overflows to -inf has an infinite gradient, which the
        # logsumexp multiplies by a zero weight.  Excluded by construction (and counted) so the search goes on.
        ctx.exclude("gumbel_mixture_component_overflow")
        who = f"dist|Mixture[Gumbel]|component_overflow"
    finite = check(mix, x, None, who, ctx)
    ctx.hist("family", who.split("|", 1)[1])
    if finite and any(kd != "bulk" for kd in kinds.reshape(-1).tolist()):
        ctx.mark_nontrivial(case)


def gumbel_mixture_probe(spec, ctx):
    """Probe of the open finding: VmapMixture of Gumbel(loc=[0, far], scale=1) at x = 0."""
    from flowjax import distributions as D
    comp = eqx.filter_vmap(D.Gumbel)(jnp.asarray(spec["loc"], float), jnp.asarray(spec["scale"], float))
    mix = D.VmapMixture(comp, jnp.asarray(spec["weights"], float))
    check(mix, np.asarray(spec["x"], np.float64), None, "dist|Mixture[Gumbel]|component_overflow", ctx)


def family_cases():
    from vf.props import c05

    @st.composite
    def f(draw):
        if draw(st.integers(0, 2)) == 0:
            c = draw(c05.mixture_cases())
            c["kinds"] = draw(st.lists(st.sampled_from(KINDS), min_size=2, max_size=2))
            c["around"] = draw(st.integers(0, 4))
            c["shift"] = draw(st.sampled_from([0.0, 0.7, 3.0]))
            if c["shift"]:
                c["comp"] = draw(st.sampled_from(["LogNormal", "Exponential"]))
        else:
            c = draw(c05.family_cases())
        return {"kind": "family", "c": c}
    return f()


def oracle(case, ctx):
    ctx.evaluated()
    if case.get("kind") == "gumbel_mixture_probe":
        return gumbel_mixture_probe(case, ctx)
    if case.get("kind") == "family":
        oracle_family(case, ctx)
        if ctx.evaluations % 37 == 1:
            ctx.sample(case)
        return
    s = bc.prepare(case)
    inp = case["inp"]
    pool = list(s.pool) + BIG
    shape = np.shape(s.x)
    x = bd.make_input(inp["xraw"], inp["xpick"], pool, shape, np.zeros(shape, int), inp["sigma"])  # ANY real input
    on_boundary = bc._picked(inp, int(np.prod(shape)) if shape else 1)
    finite_any = False
    if s.kind == "flow":
        numinv_logprob = s.numinv and not case["spec"]["invert"]
        tanh_planar = case["spec"]["factory"] == "planar_flow" and case["spec"].get("negative_slope") is None
        if tanh_planar and not case["spec"]["invert"]:
            ctx.inconcl("log_prob_needs_unimplemented_inverse")
            return
        if numinv_logprob:
            ctx.exclude("bisection_direction_gradient")
        finite_any |= check(s.flow, x, s.c, f"flow|{s.name}", ctx, grad_params=not numinv_logprob, grad_x=not numinv_logprob)
    else:
        base = StandardNormal(shape)
        # orientation A: density through b.inverse ; orientation B: through b.transform (Invert(b))
        if s.invertible:
            if s.numinv:
                ctx.exclude("bisection_direction_gradient")
            finite_any |= check(Transformed(base, s.obj), x, s.c, f"{s.kind}|{s.name}|forward", ctx,
                                grad_params=not s.numinv, grad_x=not s.numinv)
        xd = bd.to_domain(x, s.dom) if s.dom is not None else x  # Invert(b).inverse = b.transform needs x in b's domain
        finite_any |= check(Transformed(base, B.Invert(s.obj)), xd, s.c, f"{s.kind}|{s.name}|inverted", ctx)
    ctx.hist(f"{s.kind}_kind", s.name)
    if on_boundary and finite_any:
        ctx.mark_nontrivial(case)
    if ctx.evaluations % 37 == 1:
        ctx.sample(case)


def replay(spec, ctx):
    oracle(spec.get("spec", spec) if "kind" not in spec else spec, ctx)


def bnaf_activation_cases():
    from hypothesis import strategies as st_

    @st_.composite
    def f(draw):
        d = draw(st_.integers(1, 3))
        return {"kind": "leaf", "spec": {"k": "BNAF", "shape": [d], "seed": draw(gen.SEEDS), "depth": draw(st_.integers(1, 2)),
                                         "block_dim": draw(st_.integers(1, 3)), "activation": draw(st_.sampled_from(["tanh", "tanh", "softplus_fn"])),
                                         "cond": draw(st_.sampled_from([None, [2]]))},
                "pscale": draw(st_.sampled_from([0.0, 0.3, 1.0])), "inp": draw(gen.inputs())}
    return f()


def run(ctx):
    q = ctx.tier == "quick"
    run_hypothesis(ctx, bnaf_activation_cases(), oracle, 10 if q else 60, "C18-bnaf-activations")
    run_hypothesis(ctx, family_cases(), oracle, 40 if q else 400, "C18-families")
    run_hypothesis(ctx, bc.leaf_cases(inv=False), oracle, 50 if q else 600, "C18-leaves")
    run_hypothesis(ctx, bc.tree_cases(3, 7, inv=False) if q else bc.tree_cases(4, 12, inv=False), oracle, 12 if q else 150,
                   "C18-trees")
    run_hypothesis(ctx, bc.flow_cases(), oracle, 4 if q else 40, "C18-flows")
