"""C02 - reported log-determinants equal log|det J| of the map actually computed.

Oracle: jax forward-mode Jacobian of the PLAIN transform (shares no code with any hand-written
log-det), slogdet in float64.  The inverse log-det must be minus the forward value at the
corresponding point; every log-det is a scalar."""
import jax.numpy as jnp
import numpy as np

from vf import bijcase as bc
from vf import build as bd
from vf.core import Violation, lib_call, run_hypothesis

EPS = bc.EPS
RTOL = 1e-8 if not bd.shim.F32 else 2e-3


def _sig(s, what):
    return f"C02|{s.kind}|{s.name}|{what}"


def _slogdet(J):
    sign, ld = np.linalg.slogdet(J)
    return float(ld), float(sign)


def _neighbours(x):
    x = np.asarray(x, bd.FDT)
    return np.nextafter(x, bd.FDT(np.inf)), np.nextafter(x, bd.FDT(-np.inf))


def check_fwd(s, ctx, obj_method, x, want_sign=+1.0, label="transform_and_log_det"):
    """ld reported by `obj_method(x)` vs want_sign * log|det d transform/dx| at the right point."""
    raise NotImplementedError


def oracle(case, ctx):
    ctx.evaluated()
    s = bc.prepare(case)
    obj, x, cj = s.obj, s.x, s.cj
    W = _sig(s, "call")
    fwd_dir = "transform"
    if getattr(s, "fwd_only_dir", None) == "inverse":  # tanh-planar flow with invert=True: only `inverse` exists
        fwd_dir = "inverse"
    f_ld = getattr(obj, fwd_dir + "_and_log_det")
    y, ld = lib_call(W, f_ld, jnp.asarray(x), cj)
    y, ld = np.asarray(y), np.asarray(ld)
    if ld.shape != ():
        raise Violation(_sig(s, f"{fwd_dir}_and_log_det|logdet_shape"), f"log-det has shape {ld.shape}, expected ()")
    ld = float(ld)
    if not np.all(np.isfinite(y)) or not np.isfinite(ld):
        ctx.inconcl("nonfinite_forward")
        return
    # ---- forward clause: autodiff Jacobian of the plain method --------------------------------
    if s.numinv and fwd_dir == "transform":
        J = bc.jac_transform(s, x, y)
    else:
        J = bc.jac(obj, x, s.c, fwd_dir)
    n = J.shape[0]
    if not np.all(np.isfinite(J)):
        ctx.inconcl("nonfinite_jacobian")
        return
    ld_ad, _ = _slogdet(J)
    kappa = np.linalg.cond(J) if n > 0 else 1.0
    if not np.isfinite(kappa) or kappa > 1e10 or not np.isfinite(ld_ad):
        ctx.inconcl("ill_conditioned")
        return
    tol = RTOL * (1 + abs(ld_ad)) + 64 * EPS * n * kappa
    err = abs(ld - ld_ad)
    if err > tol:
        # Kink rule: at a point the implementation compares against (spline end/knot, |x| == max_val, ...)
        # either one-sided derivative is acceptable, and autodiff's own tie convention (e.g. gradient 1/2 of
        # jnp.clip at its bound) is not the truth.  Re-evaluate the autodiff Jacobian with the tied
        # coordinates displaced by +-delta (every sign pattern, <= 16) and accept any match.
        def _ld_at(xn):
            xn = np.asarray(xn, bd.FDT)
            Jn = bc.jac(obj, xn, s.c, fwd_dir) if not s.numinv else bc.jac_transform(s, xn)
            return _slogdet(Jn)[0] if np.all(np.isfinite(Jn)) else np.inf
        ok = bc.kink_match(_ld_at, x, s.pool, ld, tol + 1e-5 * (1 + abs(ld)), 1e-8 if not bd.shim.F32 else 1e-4)
        if ok:
            ctx.hist("kink_one_sided", s.name)
            err = 0.0
        else:
            raise Violation(_sig(s, f"{fwd_dir}_and_log_det.logdet"),
                            f"reported {ld!r}, log|det autodiff J| = {ld_ad!r} (|diff|={err:.3e}, tol={tol:.3e}); "
                            f"x={x.tolist()} c={None if s.c is None else s.c.tolist()}")
    ctx.ratio(f"{s.kind}.fwd_logdet_err/tol", err / tol)
    # ---- inverse clause: minus the forward value at the corresponding point -------------------
    both = s.invertible and getattr(s, "fwd_only_dir", None) is None
    if both:
        xb, ldi = lib_call(W, obj.inverse_and_log_det, jnp.asarray(y), cj)
        xb, ldi = np.asarray(xb), np.asarray(ldi)
        if ldi.shape != ():
            raise Violation(_sig(s, "inverse_and_log_det|logdet_shape"), f"log-det has shape {ldi.shape}")
        ldi = float(ldi)
        if np.all(np.isfinite(xb)) and np.isfinite(ldi):
            _, ld_at = lib_call(W, obj.transform_and_log_det, jnp.asarray(xb), cj)
            ld_at = float(ld_at)
            tol_i = (RTOL * (1 + abs(ld_at)) + 64 * EPS * n * kappa) * (100 if s.numinv else 1)
            erri = abs(ldi + ld_at)
            # the corresponding point is xb (returned by the inverse), itself ~x: also accept -ld(x)
            if erri > tol_i and abs(ldi + ld) > tol_i:
                raise Violation(_sig(s, "inverse_and_log_det.logdet"),
                                f"inverse log-det {ldi!r} != -forward log-det {ld_at!r} at the inverse image "
                                f"(|sum|={erri:.3e}, tol={tol_i:.3e}); y={y.tolist()}")
            ctx.ratio(f"{s.kind}.inv_logdet_err/tol", min(erri, abs(ldi + ld)) / tol_i)
    # ---- scalar leaves: the same clause on a dense grid (every spline bin, both tails, every pool value) ----------
    if s.kind == "leaf" and np.shape(x) == () and s.c is None and fwd_dir == "transform":
        import jax
        lo, hi = -6.0, 6.0
        if s.name == "RQS":
            iv = s.node.obj.interval
            lo, hi = float(iv[0]) - 0.5, float(iv[1]) + 0.5
        g = np.unique(np.concatenate([np.linspace(lo, hi, 161), np.asarray([v for v in s.pool if np.isfinite(v) and abs(v) < 50])]))
        g = bd.to_domain(g, np.full(g.shape, int(s.dom)))
        lds = np.asarray(jax.vmap(lambda v: obj.transform_and_log_det(v)[1])(jnp.asarray(g)), np.float64)
        der = np.asarray(jax.vmap(jax.grad(lambda v: obj.transform(v)))(jnp.asarray(g)), np.float64)
        pool = set(float(v) for v in s.pool)
        with np.errstate(all="ignore"):
            want = np.log(np.abs(der))
        for gi, a, b in zip(g, lds, want):
            if float(gi) in pool or not np.isfinite(b) or not np.isfinite(a):
                continue  # kinks (autodiff tie conventions) are judged by the main clause above
            if abs(a - b) > RTOL * (1 + abs(b)) * 100:
                raise Violation(_sig(s, "transform_and_log_det.logdet|grid"),
                                f"at x={gi!r}: reported log-det {a!r}, log|d transform/dx| (autodiff) = {b!r}")
        ctx.hist("scalar_grid", s.name)
    # ---- non-trivial: |ld| > 1e-3 and the log-det actually depends on the point -----------------
    ctx.hist(f"{s.kind}_kind", s.name)
    ctx.hist("rank", np.ndim(x))
    if abs(ld) > 1e-3:
        x2 = bd.to_domain(np.asarray(x) * 0.5 + 0.37, s.dom) if s.dom is not None else np.asarray(x) * 0.5 + 0.37
        try:
            ld2 = float(f_ld(jnp.asarray(x2), cj)[1])
        except Exception:  # noqa: BLE001
            ld2 = ld
        if abs(ld2 - ld) > 1e-9:
            ctx.mark_nontrivial(case)
            ctx.hist("nontrivial_kind", s.name)
    if ctx.evaluations % 41 == 1:
        ctx.sample(case)


def replay(spec, ctx):
    oracle(spec.get("spec", spec) if "kind" not in spec else spec, ctx)


def run(ctx):
    q = ctx.tier == "quick"
    run_hypothesis(ctx, bc.leaf_cases(inv=False), oracle, 130 if q else 1200, "C02-leaves")
    run_hypothesis(ctx, bc.tree_cases(3, 8, inv=False) if q else bc.tree_cases(4, 14, inv=False), oracle,
                   45 if q else 250, "C02-trees")
    run_hypothesis(ctx, bc.flow_cases(), oracle, 9 if q else 50, "C02-flows")
