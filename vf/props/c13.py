"""C13 - malformed inputs are rejected, never silently broadcast.

Exhaustive over (a) every concrete AbstractBijection subclass reachable by __subclasses__() (structural
meta-check that the four methods are the argument-checking wrappers), (b) an instance lattice (every
leaf kind x shapes, fixed combinator instances, generated trees) x four methods x wrong x / wrong or
missing condition shapes, (c) distributions x wrong trailing dims, (d) the documented constructor
incompatibilities.  Oracle: wrong call => exception (a returned value is the violation); right call =>
output of exactly the declared shape and a scalar log-det."""
import itertools

import equinox as eqx
import jax
import jax.numpy as jnp
import jax.random as jr
import numpy as np
from hypothesis import strategies as st

from flowjax import bijections as B
from flowjax import distributions as D
from flowjax import flows
from flowjax.bijections.bijection import AbstractBijection
from flowjax.bisection_search import AutoregressiveBisectionInverter
from vf import build as bd
from vf import gen
from vf.core import Violation, expect_raises, lib_call, run_hypothesis, shard

METHODS = ("transform", "transform_and_log_det", "inverse", "inverse_and_log_det")


def all_subclasses(cls):
    out = []
    for s in cls.__subclasses__():
        out.append(s)
        out += all_subclasses(s)
    return list(dict.fromkeys(out))


def wrong_shapes(S):
    S = tuple(S)
    cands = {(1,) + S, (2,) + S, S + (1,), S + (2,)}
    if S:
        cands |= {(), S[1:], S[:-1], tuple(1 for _ in S), S[:-1] + (S[-1] + 1,), (1,) * (len(S) - 1) + (S[-1],),
                  S[:-1] + (1,), (S[0],) + (1,) * (len(S) - 1)}
        if S[-1] > 1:
            cands.add(S[:-1] + (S[-1] - 1,))
        if len(S) >= 2:
            cands.add(tuple(reversed(S)))
    else:
        cands |= {(1,), (1, 1), (3,)}
    cands.discard(S)
    return sorted(cands)


def np_broadcastable(a, b):
    try:
        np.broadcast_shapes(a, b)
        return True
    except ValueError:
        return False


def check_instance(name, obj, ctx, S=None, C="auto"):
    """All four methods: right call shapes; wrong x / condition shapes raise."""
    S = tuple(obj.shape) if S is None else S
    C = obj.cond_shape if C == "auto" else C
    x = jnp.ones(S) * 0.3
    c = None if C is None else jnp.ones(C) * 0.2
    usable = []
    for m in METHODS:
        try:
            out = getattr(obj, m)(x, c)
        except NotImplementedError:
            continue
        usable.append(m)
        y, ld = (out if m.endswith("log_det") else (out, None))
        if tuple(np.shape(y)) != S:
            raise Violation(f"C13|{name}|{m}|output_shape", f"output shape {np.shape(y)} != declared {S}")
        if ld is not None and np.shape(ld) != ():
            raise Violation(f"C13|{name}|{m}|logdet_shape", f"log-det shape {np.shape(ld)} != ()")
        ctx.evaluated()
    n = 0
    if ctx.evaluations % 5 == 0 or not ctx.samples:
        ctx.sample({"instance": name, "shape": list(S), "cond_shape": None if C is None else list(C), "methods": usable,
                    "wrong_x_shapes": [list(w) for w in wrong_shapes(S)],
                    "wrong_condition_shapes": None if C is None else [list(w) for w in wrong_shapes(C)]})
    for m in usable:
        for W in wrong_shapes(S):
            ctx.evaluated()
            expect_raises(f"C13|{name}|{m}|wrong_x_shape", getattr(obj, m), jnp.ones(W) * 0.3, c)
            n += 1
            if np_broadcastable(W, S):
                ctx.mark_nontrivial(f"{name}|{m}|x|{W}")
        if C is not None:
            ctx.evaluated()
            expect_raises(f"C13|{name}|{m}|missing_condition", getattr(obj, m), x)
            for W in wrong_shapes(C):
                ctx.evaluated()
                expect_raises(f"C13|{name}|{m}|wrong_condition_shape", getattr(obj, m), x, jnp.ones(W) * 0.2)
                n += 1
                if np_broadcastable(W, C):
                    ctx.mark_nontrivial(f"{name}|{m}|c|{W}|{S}")
    return n


# ------------------------------ (a)+(b): classes and the instance lattice -----------------------------
LEAF_LATTICE = {
    "Affine": [(), (2,), (3,), (2, 3), (1, 3), (2, 1, 3)], "Loc": [(), (3,), (2, 3)], "Scale": [(), (3,), (1, 3)],
    "TriangularAffine": [(1,), (3,)], "Exp": [(), (2,), (2, 3)], "SoftPlus": [(), (3,)], "Tanh": [(), (2, 1, 3)],
    "LeakyTanh": [(), (3,), (2, 3)], "Identity": [(), (2,), (2, 3)], "Flip": [(), (3,), (2, 3)], "Permute": [(3,), (2, 3), (2, 1, 3)],
    "RQS": [()], "Planar": [(1,), (3,)], "Coupling": [(2,), (3,)], "MAF": [(1,), (3,)], "BNAF": [(1,), (2,)],
}
COND_LATTICE = [None, (), (2,), (2, 3), (1,)]


def lattice():
    for k, shapes in LEAF_LATTICE.items():
        for S in shapes:
            conds = [None]
            if k in ("Planar", "Coupling", "MAF", "BNAF"):
                conds = [None, (2,), (1,)]
            for C in conds:
                yield {"what": "leaf", "spec": {"k": k, "shape": list(S), "seed": 3, "cond": None if C is None else list(C),
                                                "negative_slope": 0.5}}
    for S in [(), (3,), (2, 3)]:
        for C in [(), (2,), (2, 3), (1,)]:
            yield {"what": "leaf", "spec": {"k": "AdditiveCondition", "shape": list(S), "cond": list(C), "seed": 1, "module": "tensor"}}
    aff = lambda s: {"k": "Affine", "shape": list(s), "seed": 1}  # noqa: E731
    ac = lambda s, c: {"k": "AdditiveCondition", "shape": list(s), "cond": list(c), "seed": 1, "module": "tensor"}  # noqa: E731
    trees = [
        {"k": "Chain", "children": [aff((3,)), ac((3,), (2,))]}, {"k": "Chain", "children": [aff(()), aff(())]},
        {"k": "Chain", "children": [aff((2, 3)), ac((2, 3), ())]},
        {"k": "Scan", "n": 2, "child": aff((3,))}, {"k": "Scan", "n": 2, "child": ac((2,), (1,))},
        {"k": "Vmap", "n": 3, "mapped": True, "child": aff((2,))}, {"k": "Vmap", "n": 2, "mapped": False, "child": aff(())},
        {"k": "Vmap", "n": 3, "mapped": False, "child": ac((), (2,))},
        {"k": "Vmap", "n": 3, "mapped": False, "cond_axis": 0, "child": ac((2,), (2,))},
        {"k": "Vmap", "n": 3, "mapped": False, "cond_axis": -1, "child": ac((), ())},
        {"k": "Concatenate", "axis": 0, "children": [aff((2,)), aff((1,))]},
        {"k": "Concatenate", "axis": -1, "children": [aff((2, 1)), ac((2, 2), (2,))]},
        {"k": "Stack", "axis": 0, "children": [aff((3,)), aff((3,))]}, {"k": "Stack", "axis": -1, "children": [aff((2,)), ac((2,), ())]},
        {"k": "Stack", "axis": 0, "children": [aff(()), aff(()), aff(())]},
        {"k": "Partial", "idx": {"t": "int", "v": 1}, "shape": [3], "child": aff(())},
        {"k": "Partial", "idx": {"t": "barr", "v": [True, False, True]}, "shape": [3, 2], "child": aff((2, 2))},
        {"k": "Partial", "idx": {"t": "slice", "v": [0, 2, None]}, "shape": [3], "child": ac((2,), (2,))},
        {"k": "Invert", "child": aff((2, 3))}, {"k": "Invert", "child": ac((3,), (1,))},
        {"k": "Reshape", "shape": [2, 2], "cond": None, "child": aff((4,)), "give_shape": True},
        {"k": "Reshape", "shape": [], "cond": None, "child": aff((1,)), "give_shape": True},
        {"k": "Reshape", "shape": [4], "cond": [], "child": ac((2, 2), (1,)), "give_shape": True},
        {"k": "Reshape", "shape": [3], "cond": [2, 2], "child": ac((3,), (4,)), "give_shape": True},
        {"k": "EmbedCondition", "raw_cond": [4], "seed": 2, "child": ac((3,), (2,))},
        {"k": "EmbedCondition", "raw_cond": [], "seed": 2, "child": ac((), (2,))},
        {"k": "EmbedCondition", "raw_cond": [2, 2], "seed": 2, "child": ac((2,), ())},
    ]
    for t in trees:
        yield {"what": "tree", "spec": t}
    yield {"what": "private", "which": "_UnconditionalPlanar"}
    yield {"what": "private", "which": "_CallableToBijection"}
    for f in bd.FACTORIES:
        for cd in (None, 2):
            yield {"what": "flow", "spec": {"factory": f, "dim": 2, "cond_dim": cd, "invert": cd is None, "layers": 1, "key": 0}}


def oracle_instance(c, ctx):
    if c["what"] == "leaf":
        node = bd.build_leaf(c["spec"], 0.3)
        obj, name = node.obj, c["spec"]["k"]
    elif c["what"] == "tree":
        node = bd.build(c["spec"], 0.3)
        obj, name = node.obj, c["spec"]["k"]
    elif c["what"] == "private":
        if c["which"] == "_UnconditionalPlanar":
            from flowjax.bijections.planar import _UnconditionalPlanar
            obj = _UnconditionalPlanar(jnp.ones(3), jnp.ones(3) * 0.1, jnp.array(0.2), 0.5)
        else:
            from flowjax.bijections.block_autoregressive_network import _CallableToBijection
            obj = _CallableToBijection(jnp.tanh)
        name = c["which"]
    else:
        obj = bd.build_flow(c["spec"]).bijection
        name = "flow:" + c["spec"]["factory"]
    check_instance(name, obj, ctx)
    ctx.hist("instance_class", type(obj).__name__)


def oracle_classes(ctx):
    classes = all_subclasses(AbstractBijection)
    n = 0
    for cls in classes:
        if getattr(cls, "__abstractmethods__", None) and len(cls.__abstractmethods__) > 0 and not cls.__module__.startswith("flowjax"):
            continue
        if not cls.__module__.startswith("flowjax"):
            continue
        if "Abstract" in cls.__name__:
            continue
        for m in METHODS:
            ctx.evaluated()
            n += 1
            f = getattr(cls, m, None)
            if f is None or not hasattr(f, "__wrapped__"):
                ctx.fail(f"C13|class|{cls.__name__}|{m}|not_wrapped", {"class": cls.__name__, "method": m},
                         f"{cls.__module__}.{cls.__name__}.{m} is not the argument-checking wrapper")
        ctx.hist("class_meta", cls.__name__)
    ctx.exhaustive["classes_x_methods"] = n


# ------------------------------ (c) distributions -------------------------------------------------
def dist_cases():
    fams = ["Normal", "LogNormal", "Uniform", "Gumbel", "Cauchy", "StudentT", "Laplace", "Exponential", "Logistic",
            "StandardNormal", "MVN", "Mixture"]
    for f in fams:
        for S in ([(), (3,), (2, 3)] if f not in ("MVN",) else [(3,)]):
            yield {"what": "dist", "fam": f, "shape": list(S)}
    for f in bd.FACTORIES:
        for cd in (None, 2):
            yield {"what": "dist", "fam": "flow", "spec": {"factory": f, "dim": 3 if f != "block_neural_autoregressive_flow" else 2,
                                                          "cond_dim": cd, "invert": True, "layers": 1, "key": 0}}
    for C in [(), (2,), (2, 3)]:
        yield {"what": "dist", "fam": "condbase", "shape": [3], "cond": list(C)}


def oracle_dist(c, ctx):
    f = c["fam"]
    S = tuple(c.get("shape", ()))
    one = jnp.ones(S)
    if f == "flow":
        d = bd.build_flow(c["spec"])
    elif f == "condbase":
        node = bd.build_leaf({"k": "AdditiveCondition", "shape": list(S), "cond": c["cond"], "seed": 1, "module": "tensor"})
        d = D.Transformed(D.Normal(jnp.zeros(S)), node.obj)
    elif f == "StandardNormal":
        d = D.StandardNormal(S)
    elif f == "MVN":
        d = D.MultivariateNormal(jnp.zeros(3), jnp.eye(3) * 2)
    elif f == "Mixture":
        d = D.VmapMixture(eqx.filter_vmap(lambda m: D.Normal(m * one))(jnp.arange(2.0)), jnp.ones(2))
    elif f == "Uniform":
        d = D.Uniform(0 * one, one * 2)
    elif f == "StudentT":
        d = D.StudentT(one * 3)
    elif f == "Exponential":
        d = D.Exponential(one)
    else:
        d = getattr(D, f)(0 * one, one)
    S, C = tuple(d.shape), d.cond_shape
    x = jnp.ones(S) * 0.5
    cc = None if C is None else jnp.ones(C) * 0.1
    name = f if f != "flow" else "flow:" + c["spec"]["factory"]
    lp = lib_call(f"C13|dist|{name}|log_prob", d.log_prob, x, cc)
    if np.shape(lp) != ():
        raise Violation(f"C13|dist|{name}|log_prob_shape", f"{np.shape(lp)}")
    s = lib_call(f"C13|dist|{name}|sample", d.sample, jr.PRNGKey(0), (), cc)
    if tuple(np.shape(s)) != S:
        raise Violation(f"C13|dist|{name}|sample_shape", f"{np.shape(s)} != {S}")
    # wrong trailing dims (leading batch dims are legitimate, so only shapes whose trailing part mismatches)
    def bad_trailing(T):
        T = tuple(T)
        out = set()
        if T:
            out |= {T[:-1] + (T[-1] + 1,), (2,) + T[:-1] + (T[-1] + 2,), T[:-1], tuple(reversed(T)) if tuple(reversed(T)) != T else T[:-1]}
            if T[-1] > 1:
                out |= {T[:-1] + (1,), T[:-1] + (T[-1] - 1,), ()}
        out.discard(T)
        return [w for w in sorted(out) if not (len(w) >= len(T) and w[len(w) - len(T):] == T)]
    for W in bad_trailing(S):
        ctx.evaluated()
        expect_raises(f"C13|dist|{name}|log_prob|wrong_x_trailing", d.log_prob, jnp.ones(W) * 0.5, cc)
        if np_broadcastable(W, S):
            ctx.mark_nontrivial(f"dist|{name}|x|{W}")
    if C is not None:
        ctx.evaluated()
        expect_raises(f"C13|dist|{name}|log_prob|missing_condition", d.log_prob, x)
        for W in bad_trailing(C):
            ctx.evaluated()
            expect_raises(f"C13|dist|{name}|log_prob|wrong_condition_trailing", d.log_prob, x, jnp.ones(W) * 0.1)
            expect_raises(f"C13|dist|{name}|sample|wrong_condition_trailing", d.sample, jr.PRNGKey(0), (), jnp.ones(W) * 0.1)
            if np_broadcastable(W, C):
                ctx.mark_nontrivial(f"dist|{name}|c|{W}")
    ctx.hist("dist", name)


# ------------------------------ (d) constructors ---------------------------------------------------
def ctor_cases():
    A = lambda s: B.Affine(jnp.zeros(s))  # noqa: E731
    AC = lambda s, c: B.AdditiveCondition(lambda v: jnp.sum(v), s, c)  # noqa: E731
    k = jr.PRNGKey(0)
    cases = {
        "Chain|shape_mismatch": lambda: B.Chain([A((2,)), A((3,))]),
        "Chain|shape_broadcastable": lambda: B.Chain([A((3,)), A((1,))]),
        "Chain|scalar_vs_vector": lambda: B.Chain([A(()), A((1,))]),
        "Chain|cond_mismatch": lambda: B.Chain([AC((3,), (2,)), AC((3,), (3,))]),
        "Chain|cond_mismatch_separated": lambda: B.Chain([AC((3,), (2,)), A((3,)), AC((3,), (3,))]),
        "Chain|cond_mismatch_scalar": lambda: B.Chain([AC((3,), ()), AC((3,), (1,))]),
        "Concatenate|off_axis_mismatch": lambda: B.Concatenate([A((2, 3)), A((2, 2))], axis=0),
        "Concatenate|rank_mismatch": lambda: B.Concatenate([A((2, 3)), A((3,))], axis=0),
        "Concatenate|cond_mismatch": lambda: B.Concatenate([AC((2,), (2,)), AC((1,), (3,))]),
        "Concatenate|cond_mismatch_separated": lambda: B.Concatenate([AC((2,), (2,)), A((2,)), AC((1,), (3,))]),
        "Stack|shape_mismatch": lambda: B.Stack([A((2,)), A((3,))]),
        "Stack|shape_broadcastable": lambda: B.Stack([A((3,)), A((1,))]),
        "Stack|cond_mismatch": lambda: B.Stack([AC((2,), (2,)), AC((2,), (2, 1))]),
        "Stack|cond_mismatch_separated": lambda: B.Stack([AC((2,), (2,)), A((2,)), A((2,)), AC((2,), (3,))]),
        "Transformed|cond_mismatch": lambda: D.Transformed(D.Transformed(D.StandardNormal((3,)), AC((3,), (2,))), AC((3,), (3,))),
        "Partial|index_shape_mismatch": lambda: B.Partial(A((2,)), jnp.array([0, 1, 2]), (4,)),
        "Partial|int_vs_vector": lambda: B.Partial(A((1,)), 0, (4,)),
        "Partial|slice_mismatch": lambda: B.Partial(A((3,)), slice(0, 2), (4,)),
        "Partial|mask_mismatch": lambda: B.Partial(A((3,)), jnp.array([True, False, True, False]), (4,)),
        "Reshape|element_count": lambda: B.Reshape(A((4,)), (3,)),
        "Reshape|element_count_scalar": lambda: B.Reshape(A((2,)), ()),
        "Reshape|cond_element_count": lambda: B.Reshape(AC((2,), (4,)), (2,), (3,)),
        "Reshape|cond_for_unconditional": lambda: B.Reshape(A((2,)), (2,), (1,)),
        "Coupling|vector_transformer": lambda: B.Coupling(k, transformer=A((2,)), untransformed_dim=1, dim=3, nn_width=2, nn_depth=1),
        "Coupling|conditional_transformer": lambda: B.Coupling(k, transformer=AC((), (2,)), untransformed_dim=1, dim=3, nn_width=2, nn_depth=1),
        "MAF|vector_transformer": lambda: B.MaskedAutoregressive(k, transformer=A((1,)), dim=3, nn_width=2, nn_depth=1),
        "MAF|conditional_transformer": lambda: B.MaskedAutoregressive(k, transformer=AC((), ()), dim=3, nn_width=2, nn_depth=1),
        "RQS|softmax_adjust_negative": lambda: B.RationalQuadraticSpline(knots=3, interval=1, softmax_adjust=-0.1).transform(0.5),
        "Planar|negative_slope_zero": lambda: B.Planar(k, dim=2, negative_slope=0.0).transform(jnp.ones(2)),
        "Planar|negative_slope_negative": lambda: B.Planar(k, dim=2, negative_slope=-0.5).transform(jnp.ones(2)),
        "Inverter|lower_ge_upper": lambda: AutoregressiveBisectionInverter(lower=1.0, upper=1.0),
        "Inverter|lower_gt_upper": lambda: AutoregressiveBisectionInverter(lower=2.0, upper=-2.0),
        "Inverter|tol_zero": lambda: AutoregressiveBisectionInverter(tol=0.0),
        "Inverter|tol_negative": lambda: AutoregressiveBisectionInverter(tol=-1e-3),
        "Inverter|max_iter_negative": lambda: AutoregressiveBisectionInverter(max_iter=-1),
        "Vmap|both_in_axes_and_axis_size": lambda: B.Vmap(A((2,)), in_axes=0, axis_size=3),
        "Vmap|neither": lambda: B.Vmap(A((2,))),
        "TriangularAffine|non_square": lambda: B.TriangularAffine(jnp.zeros(2), jnp.ones((2, 3))),
        "TriangularAffine|not_matrix": lambda: B.TriangularAffine(jnp.zeros(2), jnp.ones(2)),
        "BNAF|vector_activation": lambda: B.BlockAutoregressiveNetwork(k, dim=2, depth=1, block_dim=2, activation=B.LeakyTanh(3, (2,))),
        "BNAF|activation_not_callable": lambda: B.BlockAutoregressiveNetwork(k, dim=2, depth=1, block_dim=2, activation=3.0),
        "rank_based_mask|ndim": lambda: __import__("flowjax.masks", fromlist=["x"]).rank_based_mask(jnp.ones((2, 2), int), jnp.ones(2, int)),
        "merge_cond_shapes|empty": lambda: __import__("flowjax.utils", fromlist=["x"]).merge_cond_shapes([]),
        "x_not_arraylike": lambda: A((2,)).transform([1.0, 2.0]),
        "condition_not_arraylike": lambda: AC((2,), (2,)).transform(jnp.ones(2), [1.0, 2.0]),
    }
    return cases


def oracle_ctor(name, fn, ctx):
    ctx.evaluated()
    ctx.sample({"constructor_case": name})
    expect_raises(f"C13|ctor|{name}", fn)
    ctx.mark_nontrivial(f"ctor|{name}")


# ------------------------------ generated compositions ---------------------------------------------
def oracle_tree(c, ctx):
    node = bd.build(c["tree"], float(c["pscale"]))
    n = check_instance(f"tree:{node.kind}", node.obj, ctx, node.shape, node.cond_shape)
    ctx.hist("tree_top", node.kind)


def replay_fuzz(rec):
    """Re-run one fuzz record (plain regression check, bypasses atheris)."""
    k = rec["kind"]
    if k in ("Stack", "Concatenate", "Chain"):
        shapes = [tuple(s) for s in rec["shapes"]]
        kids = [B.Identity(s) for s in shapes]
        zs = [np.zeros(s) for s in shapes]
        try:
            want = {"Stack": lambda: np.stack(zs, rec["axis"]).shape, "Concatenate": lambda: np.concatenate(zs, rec["axis"]).shape,
                    "Chain": lambda: shapes[0] if all(s == shapes[0] for s in shapes) else (_ for _ in ()).throw(ValueError())}[k]()
        except Exception:  # noqa: BLE001
            want = None
        build = {"Stack": lambda: B.Stack(kids, axis=rec["axis"]), "Concatenate": lambda: B.Concatenate(kids, axis=rec["axis"]),
                 "Chain": lambda: B.Chain(kids)}[k]
    elif k == "Reshape":
        s1, s2 = tuple(rec["from"]), tuple(rec["to"])
        want = s2 if int(np.prod(s1)) == int(np.prod(s2)) else None
        build = lambda: B.Reshape(B.Identity(s1), s2)  # noqa: E731
    else:
        return
    try:
        obj = build()
    except (ValueError, IndexError, TypeError):
        if want is not None:
            raise Violation(f"C13|fuzz_shapes|{k}", f"{rec}: raised although numpy gives {want}")
        return
    if want is None or tuple(obj.shape) != tuple(want):
        raise Violation(f"C13|fuzz_shapes|{k}", f"{rec}: declared {tuple(obj.shape)}, numpy: {want}")


def replay(spec, ctx):
    spec = spec.get("spec", spec) if "what" not in spec and "tree" not in spec and "ctor" not in spec else spec
    if "fuzz" in spec:
        return replay_fuzz(spec["fuzz"])
    if "ctor" in spec:
        return oracle_ctor(spec["ctor"], ctor_cases()[spec["ctor"]], ctx)
    if "tree" in spec:
        return oracle_tree(spec, ctx)
    if spec.get("what") == "dist":
        return oracle_dist(spec, ctx)
    if spec.get("class"):
        return oracle_classes(ctx)
    return oracle_instance(spec, ctx)


def run_shape_fuzzer(ctx, runs):
    """Coverage-guided fuzzing (atheris) of the constructors' shape algebra against NumPy semantics, see vf/fuzz_shapes.py."""
    import json
    import os
    import subprocess
    import sys
    here = os.path.dirname(os.path.dirname(os.path.dirname(os.path.abspath(__file__))))
    if not os.path.isdir(os.path.join(here, ".deps", "atheris")):
        ctx.note("atheris not installed under /verif/.deps (setup.sh installs it from the wheelhouse): shape fuzzer skipped")
        return
    out = os.path.join(here, ".work", f"fuzz-{os.getpid()}.json")
    os.makedirs(os.path.dirname(out), exist_ok=True)
    p = subprocess.run([sys.executable, "-m", "vf.fuzz_shapes", "--runs", str(runs), "--seed", str(ctx.seed or 1), "--out", out],
                       cwd=here, env=dict(os.environ), stdout=subprocess.PIPE, stderr=subprocess.STDOUT, text=True, timeout=1200)
    if not os.path.exists(out):
        raise RuntimeError("shape fuzzer produced no record:\n" + p.stdout[-1500:])
    r = json.load(open(out))
    os.remove(out)
    st_ = r["stats"]
    ctx.evaluated(int(st_["execs"]))
    ctx.exhaustive["fuzz_shapes_execs"] = int(st_["execs"])
    for k, v in st_["kinds"].items():
        ctx.hist("fuzz_kind", k, v)
    ctx.hist("fuzz_outcome", "valid", st_["valid"])
    ctx.hist("fuzz_outcome", "rejected", st_["rejected"])
    for smp in st_["samples"][:3]:
        ctx.sample({"fuzz_shapes": smp})
    if r["failure"]:
        f = r["failure"]
        ctx.fail(f"C13|fuzz_shapes|{f['rec']['kind']}", {"fuzz": f["rec"]}, f["why"])


def run(ctx):
    q = ctx.tier == "quick"
    if ctx.gindex == 0:
        oracle_classes(ctx)
    if ctx.gindex == 1 % max(1, ctx.gsize):
        run_shape_fuzzer(ctx, 30000 if q else 600000)
    n = 0
    ctors = ctor_cases()
    work = [("inst", c) for c in lattice()] + [("dist", c) for c in dist_cases()] + [("ctor", k) for k in ctors]
    for kind, c in shard(work, ctx):
        try:
            if kind == "inst":
                oracle_instance(c, ctx)
            elif kind == "dist":
                oracle_dist(c, ctx)
            else:
                oracle_ctor(c, ctors[c], ctx)
        except Violation as v:
            ctx.fail(v.signature, c if kind != "ctor" else {"ctor": c}, v.detail)
        n += 1
        ctx.housekeeping(25)
    ctx.exhaustive["lattice_items"] = n

    @st.composite
    def trees(draw):
        return {"tree": draw(gen.any_tree(3, 8, numinv=False)), "pscale": draw(st.sampled_from([0.0, 0.3]))}

    run_hypothesis(ctx, trees(), oracle_tree, 12 if q else 150, "C13-trees")
