"""C09 - autoregressive, coupling and block structure holds for ALL weights.

Exhaustive configuration grid; per configuration (i) the all-positive weight assignment with positive
inputs (ReLU: every unit active, every permitted path contributes a strictly positive partial
derivative, so the Jacobian pattern IS the path pattern) and (ii) random weights of both signs and
large magnitude.  Oracle: forward-mode Jacobians wrt x and wrt the condition."""
import itertools

import equinox as eqx
import jax
import jax.numpy as jnp
import jax.random as jr
import numpy as np
import optax

from flowjax import bijections as B
from flowjax import masks, wrappers
from flowjax.distributions import StandardNormal, Transformed
from flowjax.train import fit_to_data
from vf.core import Violation, lib_call, run_hypothesis, shard

ZERO = 1e-13


def set_weights(obj, mode, seed, scale=1.0):
    params, static = eqx.partition(obj, eqx.is_inexact_array, is_leaf=lambda l: isinstance(l, wrappers.NonTrainable))
    leaves, td = jax.tree_util.tree_flatten(params)
    keys = jr.split(jr.PRNGKey(seed), max(1, len(leaves)))
    if mode == "pos":
        new = [jr.uniform(k, l.shape, l.dtype, 0.05, 1.0) for l, k in zip(leaves, keys)]
    elif mode == "init":
        new = leaves
    else:
        new = [scale * jr.normal(k, l.shape, l.dtype) for l, k in zip(leaves, keys)]
    return eqx.combine(jax.tree_util.tree_unflatten(td, new), static)


def transformer(name):
    return B.Affine() if name == "affine" else B.RationalQuadraticSpline(knots=2, interval=2)


def jacs(obj, x, c):
    Jx = np.asarray(jax.jacfwd(lambda v: obj.transform(v, c))(x), np.float64)
    Jc = None if c is None else np.asarray(jax.jacfwd(lambda cc: obj.transform(x, cc))(c), np.float64)
    return Jx, Jc


def inputs(dim, cond, mode, seed):
    k1, k2 = jr.split(jr.PRNGKey(seed + 5))
    if mode == "pos":
        x = jr.uniform(k1, (dim,), minval=0.3, maxval=1.7)
        c = None if cond is None else jr.uniform(k2, (cond,), minval=0.2, maxval=1.5)
    else:
        x = 1.5 * jr.normal(k1, (dim,))
        c = None if cond is None else 1.5 * jr.normal(k2, (cond,))
    return x, c


def trained(obj, dim, cond, seed):
    """Three real optimiser steps of fit_to_data (masks must survive training)."""
    dist = Transformed(StandardNormal((dim,)), B.Invert(obj))
    k1, k2, k3 = jr.split(jr.PRNGKey(seed), 3)
    x = jr.normal(k1, (12, dim))
    c = None if cond is None else jr.normal(k2, (12, cond))
    dist, _ = fit_to_data(k3, dist, x, condition=c, max_epochs=3, batch_size=12, val_prop=0.25,
                          optimizer=optax.sgd(0.3), show_progress=False, return_best=False)
    return dist.bijection.bijection


def oracle(c, ctx):
    ctx.evaluated()
    kind, dim, cond, mode = c["kind"], int(c["dim"]), c.get("cond"), c["mode"]
    seed = int(c.get("seed", 0))
    key = jr.PRNGKey(seed)
    cfg = {k: v for k, v in c.items()}
    if kind == "MAF":
        obj = lib_call("C09|MAF|construct", B.MaskedAutoregressive, key, transformer=transformer(c["transformer"]), dim=dim,
                       cond_dim=cond, nn_width=int(c["width"]), nn_depth=int(c["depth"]))
    elif kind == "Coupling":
        obj = lib_call("C09|Coupling|construct", B.Coupling, key, transformer=transformer(c["transformer"]),
                       untransformed_dim=int(c["ud"]), dim=dim, cond_dim=cond, nn_width=int(c["width"]),
                       nn_depth=int(c["depth"]))
    else:
        obj = lib_call("C09|BNAF|construct", B.BlockAutoregressiveNetwork, key, dim=dim, cond_dim=cond,
                       depth=int(c["depth"]), block_dim=int(c["block_dim"]))
    if mode == "trained":
        obj = set_weights(obj, "rand", seed + 1, 0.5)
        obj = lib_call(f"C09|{kind}|fit_to_data", trained, obj, dim, cond, seed)
    else:
        obj = set_weights(obj, mode, seed + 1, float(c.get("scale", 1.0)))
    x, cc = inputs(dim, cond, mode, seed)
    Jx, Jc = lib_call(f"C09|{kind}|jacobian", jacs, obj, x, cc)
    if not np.all(np.isfinite(Jx)):
        ctx.inconcl("nonfinite_jacobian")
        return
    big = max(np.max(np.abs(Jx)), 1e-300)
    iszero = np.abs(Jx) <= ZERO * big
    up = np.triu(np.ones((dim, dim), bool), 1)
    if kind in ("MAF", "BNAF"):
        if np.any(~iszero[up]):
            raise Violation(f"C09|{kind}|not_lower_triangular",
                            f"dy_i/dx_j != 0 for j>i: J={Jx.tolist()} cfg={cfg}")
    if kind == "BNAF":
        if np.any(np.diag(Jx) <= 0):
            raise Violation("C09|BNAF|diagonal_not_positive", f"diag J = {np.diag(Jx).tolist()} cfg={cfg}")
    if kind == "MAF":
        if c["transformer"] == "affine":  # transformer parameters of output i do not depend on x_i: y_i affine in x_i
            for i in range(dim):
                ys = [float(obj.transform(x.at[i].set(t), cc)[i]) for t in (0.0, 1.0, 2.5)]
                if abs((ys[2] - ys[0]) / 2.5 - (ys[1] - ys[0])) > 1e-9 * (1 + abs(ys[1] - ys[0])):
                    raise Violation("C09|MAF|params_depend_on_own_input", f"y_{i} is not affine in x_{i}: {ys} cfg={cfg}")
        if mode == "pos" and int(c["width"]) >= dim:
            low = np.tril(np.ones((dim, dim), bool), -1)
            if np.any(iszero[low]):
                raise Violation("C09|MAF|permitted_dependency_missing",
                                f"dy_i/dx_j == 0 for some j<i with width>=dim: J={Jx.tolist()} cfg={cfg}")
    if kind == "Coupling":
        ud = int(c["ud"])
        y = np.asarray(obj.transform(x, cc))
        if not np.array_equal(y[:ud], np.asarray(x)[:ud]):
            raise Violation("C09|Coupling|first_block_changed", f"x={np.asarray(x).tolist()} y={y.tolist()} cfg={cfg}")
        sub = Jx[ud:, ud:]
        off = ~np.eye(dim - ud, dtype=bool)
        if np.any(np.abs(sub[off]) > ZERO * big):
            raise Violation("C09|Coupling|cross_dependency", f"dy_trans_i/dx_trans_j != 0 (i!=j): J={Jx.tolist()} cfg={cfg}")
        if mode == "pos" and np.any(iszero[ud:, :ud]):
            raise Violation("C09|Coupling|permitted_dependency_missing",
                            f"a transformed coordinate ignores the first block: J={Jx.tolist()} cfg={cfg}")
    if Jc is not None and mode == "pos" and kind in ("MAF", "Coupling"):
        rows = slice(int(c["ud"]), None) if kind == "Coupling" else slice(None)
        if np.any(np.abs(Jc[rows]) <= ZERO * max(np.max(np.abs(Jc)), 1e-300)):
            if not (kind == "MAF" and int(c["width"]) < dim and int(c["depth"]) > 0):
                raise Violation(f"C09|{kind}|condition_dependency_missing",
                                f"dy_i/dc_k == 0 for some output: Jc={Jc.tolist()} cfg={cfg}")
    if not (dim == 1 and cond is None) and mode != "init":
        ctx.mark_nontrivial(c)
    ctx.hist("kind/mode", f"{kind}/{mode}")
    if ctx.evaluations % 61 == 1:
        ctx.sample(c)


# ------------------------------ mask helpers vs numpy references ---------------------------------
def oracle_masks(c, ctx):
    ctx.evaluated()
    if c["mask"] == "rank":
        a, b, eq = np.asarray(c["in"], int), np.asarray(c["out"], int), bool(c["eq"])
        got = np.asarray(lib_call("C09|rank_based_mask", masks.rank_based_mask, jnp.asarray(a), jnp.asarray(b), eq=eq))
        want = (b[:, None] >= a[None, :]) if eq else (b[:, None] > a[None, :])
        name = "rank_based_mask"
    else:
        bs, n = tuple(c["block"]), int(c["n"])
        if c["mask"] == "diag":
            got = np.asarray(lib_call("C09|block_diag_mask", masks.block_diag_mask, bs, n))
            want = np.kron(np.eye(n, dtype=bool), np.ones(bs, bool))
            name = "block_diag_mask"
        else:
            k = int(c["k"])
            got = np.asarray(lib_call("C09|block_tril_mask", masks.block_tril_mask, bs, n, k))
            want = np.kron(np.tril(np.ones((n, n), bool), k), np.ones(bs, bool))
            name = "block_tril_mask"
    if got.shape != want.shape or got.dtype != bool or not np.array_equal(got, want):
        raise Violation(f"C09|{name}", f"{c}: got {got.astype(int).tolist()} want {want.astype(int).tolist()}")
    ctx.mark_nontrivial(c)


def replay(spec, ctx):
    spec = spec.get("spec", spec) if "kind" not in spec and "mask" not in spec else spec
    (oracle_masks if "mask" in spec else oracle)(spec, ctx)


def grid(thorough):
    dmax = 5 if thorough else 3
    modes = [("pos", 1.0), ("rand", 1.0), ("rand", 30.0)] + ([("init", 1.0)] if thorough else [])
    for dim, cond, depth, tr in itertools.product(range(1, dmax + 1), (None, 1, 2), (0, 1, 2), ("affine", "rqs")):
        for width in sorted({1, 2, dim, dim + 2}):
            for mode, sc in modes:
                yield {"kind": "MAF", "dim": dim, "cond": cond, "width": width, "depth": depth, "transformer": tr,
                       "mode": mode, "scale": sc, "seed": dim * 100 + width * 10 + depth}
    for dim in range(2, dmax + 2):
        for ud, cond, depth, tr, width in itertools.product(range(1, dim), (None, 2), (0, 1), ("affine", "rqs"), (1, dim)):
            for mode, sc in modes[:3]:
                yield {"kind": "Coupling", "dim": dim, "ud": ud, "cond": cond, "width": width, "depth": depth,
                       "transformer": tr, "mode": mode, "scale": sc, "seed": dim * 100 + ud * 10 + depth}
    for dim, depth, bd_, cond in itertools.product(range(1, dmax + 1), (0, 1, 2), (1, 2, 3), (None, 2)):
        for mode, sc in (("rand", 1.0), ("rand", 10.0), ("rand", 30.0), ("init", 1.0)):
            yield {"kind": "BNAF", "dim": dim, "cond": cond, "depth": depth, "block_dim": bd_, "mode": mode, "scale": sc,
                   "seed": dim * 100 + depth * 10 + bd_}
    # masks survive real training
    for kind, dim, cond in itertools.product(("MAF", "Coupling", "BNAF"), (2, 3), (None, 2)):
        yield {"kind": kind, "dim": dim, "cond": cond, "width": dim + 1, "depth": 1, "transformer": "affine", "ud": 1,
               "block_dim": 2, "mode": "trained", "seed": dim}


def mask_grid():
    for n_in, n_out in itertools.product(range(1, 5), range(1, 5)):
        for eq in (True, False):
            for off in (0, 1):
                yield {"mask": "rank", "in": [(i * 2 + off) % 3 - 1 for i in range(n_in)], "out": [(i + off) % 4 - 1 for i in range(n_out)], "eq": eq}
    for a, b, n in itertools.product(range(1, 4), range(1, 4), range(1, 7)):
        yield {"mask": "diag", "block": [a, b], "n": n}
        for k in (-1, 0, 1):
            yield {"mask": "tril", "block": [a, b], "n": n, "k": k}


def run(ctx):
    from hypothesis import strategies as st

    thorough = ctx.tier != "quick"
    n = 0
    for c in shard(itertools.chain(mask_grid(), grid(thorough)), ctx):
        try:
            (oracle_masks if "mask" in c else oracle)(c, ctx)
        except Violation as v:
            ctx.fail(v.signature, c, v.detail)
        n += 1
        ctx.housekeeping(60)
    ctx.exhaustive["configuration_grid"] = n

    @st.composite
    def rnd(draw):  # Hypothesis-drawn weights / seeds on top of the grid
        kind = draw(st.sampled_from(["MAF", "Coupling", "BNAF"]))
        dim = draw(st.integers(2 if kind == "Coupling" else 1, 5))
        return {"kind": kind, "dim": dim, "cond": draw(st.sampled_from([None, 1, 3])), "width": draw(st.integers(1, 7)),
                "depth": draw(st.integers(0, 2)), "transformer": draw(st.sampled_from(["affine", "rqs"])),
                "ud": draw(st.integers(1, max(1, dim - 1))), "block_dim": draw(st.integers(1, 3)),
                "mode": draw(st.sampled_from(["rand", "rand", "pos"])) if kind != "BNAF" else "rand",
                "scale": draw(st.sampled_from([0.1, 1.0, 5.0, 30.0])), "seed": draw(st.integers(0, 10**6))}

    run_hypothesis(ctx, rnd(), oracle, 25 if not thorough else 250, "C09-random")
