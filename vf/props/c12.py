"""C12 - unwrap applies every wrapper exactly once; frozen parameters never move.

(i) generated WRAPPER EXPRESSIONS (Lambda / BijectionReparam / Where / WeightNormalization / NonTrainable
    nested to depth 3, inside dict/list/tuple/Module containers, built under 0-2 filter_vmaps) against a
    NumPy evaluator of the wrappers' definitions; completeness and idempotence of unwrap;
(ii) every catalogue bijection / flow: methods agree on obj and unwrap(obj);
(iii) models with a drawn subset of leaves / sub-trees frozen: exactly zero gradient, bit-identical after
    training by either loop with any optimiser (incl. weight decay and an 'add one' optimiser), all
    non-float leaves bit-identical, and frozen transformer parameters are not parameterised by
    coupling / autoregressive conditioners."""
import equinox as eqx
import jax
import jax.numpy as jnp
import jax.random as jr
import numpy as np
import optax
from hypothesis import strategies as st

from flowjax import bijections as B
from flowjax import distributions as D
from flowjax import wrappers as W
from flowjax.train import fit_to_data, fit_to_variational_target
from flowjax.train.losses import ElboLoss
from vf import bijcase as bc
from vf import build as bd
from vf import gen
from vf.core import Violation, lib_call, run_hypothesis

SHAPE = (2, 3)
FNS = {"exp": (jnp.exp, np.exp), "affine": (lambda v: 2.0 * v + 1.0, lambda v: 2.0 * v + 1.0), "tanh": (jnp.tanh, np.tanh),
       "sumsq": (lambda v: v * jnp.sum(v**2, -1, keepdims=True), lambda v: v * np.sum(v**2, -1, keepdims=True))}
MASK = np.asarray([[True, False, True], [False, False, True]])
PERM = np.asarray([2, 0, 1])
PERMFLAT = np.asarray([[4, 3, 2], [0, 1, 5]])  # a permutation of the flat indices of a (2,3) array


def np_softplus(v):
    return np.logaddexp(0.0, v)


# ----- expression: ("leaf", coef) | ("lambda", fn, e) | ("reparam", bij, invert, e) | ("where", e1, e2)
#                   | ("wn", e) | ("nt", e) ------------------------------------------------------------
def build_expr(e, a):
    """jax object (possibly a wrapper) from expression e and base array a (shape SHAPE)."""
    k = e[0]
    if k == "leaf":
        return a * e[1] + e[2]
    if k == "lambda":
        return W.Lambda(FNS[e[1]][0], build_expr(e[2], a))
    if k == "lambda_mask":  # a wrapper that directly holds a NON-floating-point array (documented: args may be any arrays)
        return W.Lambda(lambda v, m: jnp.where(m, v, -1.0), build_expr(e[1], a), m=jnp.asarray(MASK))
    if k == "lambda_take":
        return W.Lambda(lambda v, idx: jnp.take(v, idx, axis=-1), build_expr(e[1], a), idx=jnp.asarray(PERM))
    if k == "reparam":
        bij = {"softplus": B.SoftPlus(), "exp": B.Exp(), "affine": B.Affine(0.5, 2.0),
               "permute": B.Permute(jnp.asarray(PERMFLAT))}[e[1]]
        if e[2]:  # invert_on_init: the argument is the (plain) constrained value, positive
            return W.BijectionReparam(jnp.abs(a * e[3][1] + e[3][2]) + 0.1, bij)
        return W.BijectionReparam(build_expr(e[3], a), bij, invert_on_init=False)
    if k == "where":
        return W.Where(jnp.asarray(MASK), build_expr(e[1], a), build_expr(e[2], a))
    if k == "wn":
        return W.WeightNormalization(build_expr(e[1], a))
    if k == "nt":
        return W.NonTrainable(build_expr(e[1], a))
    raise ValueError(k)


def eval_expr(e, a):
    """NumPy evaluation of the wrappers' DEFINITIONS."""
    k = e[0]
    if k == "leaf":
        return a * e[1] + e[2]
    if k == "lambda":
        return FNS[e[1]][1](eval_expr(e[2], a))
    if k == "lambda_mask":
        return np.where(MASK, eval_expr(e[1], a), -1.0)
    if k == "lambda_take":
        return np.take(eval_expr(e[1], a), PERM, axis=-1)
    if k == "reparam":
        f = {"softplus": np_softplus, "exp": np.exp, "affine": lambda v: 2.0 * v + 0.5, "permute": lambda v: np.reshape(v, -1)[PERMFLAT]}[e[1]]
        if e[2]:
            return np.abs(a * e[3][1] + e[3][2]) + 0.1  # transform(inverse(value)) == value
        return f(eval_expr(e[3], a))
    if k == "where":
        return np.where(MASK, eval_expr(e[1], a), eval_expr(e[2], a))
    if k == "wn":  # scale initialised to 1/||w|| (softplus-reparameterised), value = scale * w / ||w||
        w = eval_expr(e[1], a)
        n = np.linalg.norm(w, axis=-1, keepdims=True)
        return (1.0 / n) * w / n
    if k == "nt":
        return eval_expr(e[1], a)
    raise ValueError(k)


def exprs(depth):
    leaf = st.tuples(st.just("leaf"), st.sampled_from([1.0, -0.5, 0.3]), st.sampled_from([0.0, 0.7, -0.2]))
    if depth == 0:
        return leaf
    sub = exprs(depth - 1)
    return st.one_of(
        leaf,
        st.tuples(st.just("lambda"), st.sampled_from(sorted(FNS)), sub),
        st.tuples(st.just("reparam"), st.sampled_from(["softplus", "exp", "affine", "permute"]), st.just(False), sub),
        st.tuples(st.just("lambda_mask"), sub),
        st.tuples(st.just("lambda_take"), sub),
        st.tuples(st.just("reparam"), st.sampled_from(["softplus", "exp"]), st.just(True), leaf),
        st.tuples(st.just("where"), sub, sub),
        st.tuples(st.just("wn"), sub),
        st.tuples(st.just("nt"), sub),
    )


class Box(eqx.Module):
    a: object
    b: object
    n: int = 3


def has_wrapper(tree):
    return any(isinstance(l, W.AbstractUnwrappable)
               for l in jax.tree_util.tree_leaves(tree, is_leaf=lambda x: isinstance(x, W.AbstractUnwrappable)))


def oracle_expr(c, ctx):
    e1, e2 = _tup(c["e1"]), _tup(c["e2"])
    nv = int(c["nvmap"])
    base = np.asarray(jr.normal(jr.PRNGKey(int(c["seed"])), (2,) * nv + SHAPE), np.float64) * 0.8 + 0.2
    container = c["container"]

    def make(a):
        x, y = build_expr(e1, a), build_expr(e2, a)
        return {"dict": lambda: {"p": x, "q": [y, 3]}, "list": lambda: [x, (y, "s")], "tuple": lambda: (x, {"k": y}),
                "module": lambda: Box(x, (y,), 5)}[container]()

    f = make
    for _ in range(nv):
        f = eqx.filter_vmap(f)
    tree = lib_call("C12|wrappers|construct", f, jnp.asarray(base))
    un = lib_call("C12|wrappers|unwrap", W.unwrap, tree)
    if has_wrapper(un):
        raise Violation("C12|unwrap|wrapper_remains", f"e1={e1} e2={e2} container={container} nvmap={nv}")
    un2 = W.unwrap(un)
    l1, l2 = jax.tree_util.tree_leaves(un), jax.tree_util.tree_leaves(un2)
    if len(l1) != len(l2) or any(np.asarray(u).tobytes() != np.asarray(v).tobytes() for u, v in zip(l1, l2)
                                 if isinstance(u, (jax.Array, np.ndarray))):
        raise Violation("C12|unwrap|not_idempotent", f"e1={e1} e2={e2}")
    # values vs the numpy evaluator, element by element of the vmapped construction
    def pick(t):
        return {"dict": lambda: (t["p"], t["q"][0]), "list": lambda: (t[0], t[1][0]), "tuple": lambda: (t[0], t[1]["k"]),
                "module": lambda: (t.a, t.b[0])}[container]()
    gx, gy = (np.asarray(v, np.float64) for v in pick(un))
    wx = np.stack([eval_expr(e1, a) for a in base.reshape((-1,) + SHAPE)]).reshape(base.shape)
    wy = np.stack([eval_expr(e2, a) for a in base.reshape((-1,) + SHAPE)]).reshape(base.shape)
    for name, g, w, e in (("first", gx, wx, e1), ("second", gy, wy, e2)):
        fin = np.isfinite(g) & np.isfinite(w)
        if not np.any(fin):
            ctx.inconcl("overflow")
            continue
        if g.shape != w.shape or not np.all(np.abs(g - w)[fin] <= 1e-9 * (1 + np.abs(w[fin]))) or np.any(np.isfinite(g) != np.isfinite(w)):
            raise Violation("C12|unwrap|value", f"expression {e} under {nv} vmaps in a {container}: unwrap gives "
                                                f"{g.tolist()}, definitions give {w.tolist()}")
    # vmapped construction == stack of individually constructed and unwrapped ones (structural statement)
    if nv:
        singles = [pick(W.unwrap(make(jnp.asarray(a))))[0] for a in base.reshape((-1,) + SHAPE)]
        st_ = np.stack([np.asarray(s) for s in singles]).reshape(base.shape)
        f2 = np.isfinite(st_) & np.isfinite(gx)
        if not np.all(np.abs(st_ - gx)[f2] <= 1e-12 * (1 + np.abs(gx[f2]))):
            raise Violation("C12|unwrap|vmapped_construction", f"expression {e1}: vmapped != stacked individual")
    depth = _depth(e1) + _depth(e2)
    if depth >= 3 or nv:
        ctx.mark_nontrivial(c)
    ctx.hist("nvmap", nv)
    ctx.hist("container", container)


def _tup(e):
    return tuple(_tup(x) if isinstance(x, (list, tuple)) else x for x in e)


def _depth(e):
    return 1 + max([_depth(x) for x in e if isinstance(x, tuple)] + [0]) if e[0] != "leaf" else 0


# --------------------------- (ii) methods agree on obj and unwrap(obj) -------------------------------
def oracle_methods(case, ctx):
    s = bc.prepare(case)
    obj = s.obj if s.kind != "flow" else s.flow
    u = W.unwrap(obj)
    if has_wrapper(u):
        raise Violation(f"C12|unwrap|wrapper_remains|{s.name}", "after unwrap")
    x, cj = jnp.asarray(s.x), s.cj
    if s.kind == "flow":
        key = jr.PRNGKey(3)
        pairs = [("sample", lambda o: o.sample(key, (2,), cj)), ("sample_and_log_prob", lambda o: o.sample_and_log_prob(key, (), cj))]
        if getattr(s, "fwd_only_dir", None) != "transform":
            pairs.append(("log_prob", lambda o: o.log_prob(x, cj)))
        if getattr(s, "fwd_only_dir", None) == "inverse":
            pairs = [("log_prob", lambda o: o.log_prob(x, cj))]
    else:
        pairs = [("transform", lambda o: o.transform(x, cj)), ("transform_and_log_det", lambda o: o.transform_and_log_det(x, cj))]
        if s.invertible:
            y = s.obj.transform(x, cj)
            pairs += [("inverse", lambda o: o.inverse(y, cj)), ("inverse_and_log_det", lambda o: o.inverse_and_log_det(y, cj))]
    for name, f in pairs:
        a = lib_call(f"C12|methods|{s.name}|{name}", f, obj)
        b = lib_call(f"C12|methods|{s.name}|{name}|unwrapped_first", f, u)
        for p, q in zip(jax.tree_util.tree_leaves(a), jax.tree_util.tree_leaves(b)):
            p, q = np.asarray(p, np.float64), np.asarray(q, np.float64)
            fin = np.isfinite(p) & np.isfinite(q)
            if p.shape != q.shape or np.any(np.abs(p - q)[fin] > 1e-10 * (1 + np.abs(q[fin]))):
                raise Violation(f"C12|methods_differ_after_unwrap|{s.name}|{name}", f"{p.tolist()} vs {q.tolist()}")
    if float(case.get("pscale", case.get("spec", {}).get("pscale", 0)) or 0) > 0:
        ctx.mark_nontrivial(case)
    ctx.hist("methods_subject", s.name)


# --------------------------- (iii) frozen parameters -------------------------------------------------
def is_nt(x):
    return isinstance(x, W.NonTrainable)


def frozen_arrays(tree):
    out = []
    for n in jax.tree_util.tree_leaves(tree, is_leaf=is_nt):
        if is_nt(n):
            out += [np.asarray(l) for l in jax.tree_util.tree_leaves(n) if isinstance(l, (jax.Array, np.ndarray))]
    return out


def nonfloat_arrays(tree):
    return [np.asarray(l) for l in jax.tree_util.tree_leaves(tree)
            if isinstance(l, (jax.Array, np.ndarray)) and not np.issubdtype(np.asarray(l).dtype, np.inexact)]


def trainable_arrays(tree):
    p, _ = eqx.partition(tree, eqx.is_inexact_array, is_leaf=is_nt)
    return [np.asarray(l) for l in jax.tree_util.tree_leaves(p)]


def freeze(dist, mode, bits):
    if mode == "base":
        return eqx.tree_at(lambda d: d.base_dist, dist, replace_fn=W.NonTrainable)
    if mode == "base_leaves":
        return eqx.tree_at(lambda d: d.base_dist, dist, replace_fn=W.non_trainable)
    if mode == "bijection":
        return eqx.tree_at(lambda d: d.bijection, dist, replace_fn=W.NonTrainable)
    if mode == "all":
        return W.non_trainable(dist)
    cnt = [0]

    def f(leaf):
        if eqx.is_inexact_array(leaf):
            i = cnt[0]
            cnt[0] += 1
            return W.NonTrainable(leaf) if bits[i % len(bits)] else leaf
        return leaf
    return jax.tree_util.tree_map(f, dist, is_leaf=is_nt)


def _add_one():
    return optax.GradientTransformation(lambda params: (), lambda g, s, params=None: (jax.tree_util.tree_map(jnp.ones_like, g), s))


OPTS = {"sgd": lambda: optax.sgd(0.1), "adam": lambda: optax.adam(0.05), "adamw": lambda: optax.adamw(0.05, weight_decay=0.3),
        "rmsprop": lambda: optax.rmsprop(0.05), "clip_adam": lambda: optax.chain(optax.clip(1.0), optax.adam(0.05)),
        "sgd_decay": lambda: optax.chain(optax.add_decayed_weights(0.2), optax.sgd(0.1)), "add_one": _add_one}


def oracle_frozen(c, ctx):
    k, dim = c["model"], int(c["dim"])
    seed = int(c["seed"])
    if k == "normal":
        dist = D.Normal(jnp.arange(dim) * 0.5, 1.0 + 0.3 * jnp.arange(dim))
    elif k == "nested_chains":  # whole Chains frozen with NonTrainable, nested in Chains / nested Transformed distributions
        bits = list(c["bits"])
        wrap = lambda on, b: W.NonTrainable(b) if on else b  # noqa: E731
        inner1 = B.Chain([B.Affine(jnp.arange(dim) * 0.3, 1.0 + 0.1 * jnp.arange(dim)), B.Loc(jnp.full(dim, 0.2))])
        inner2 = B.Chain([B.Loc(jnp.full(dim, -0.4)), B.Scale(jnp.full(dim, 1.3))])
        dist = D.Transformed(D.Transformed(D.Normal(jnp.zeros(dim), jnp.ones(dim)), inner1),
                             B.Chain([B.Scale(jnp.full(dim, 0.8)), wrap(bits[1] or not bits[0], inner2), B.Loc(jnp.full(dim, 0.1))]))
        if bits[0] or not bits[1]:  # (a wholly wrapped bijection exposes no attributes, so it is wrapped after construction: documented)
            dist = eqx.tree_at(lambda d: d.base_dist.bijection, dist, replace_fn=W.NonTrainable)
    elif k == "studentt_base_flow":
        dist = bd.build_flow({"factory": "masked_autoregressive_flow", "dim": dim, "cond_dim": None, "invert": True, "layers": 1,
                              "key": seed, "width": 3}, base=D.StudentT(jnp.full(dim, 4.0)))
    else:
        dist = bd.build_flow({"factory": k, "dim": max(dim, 2) if k == "coupling_flow" else dim, "cond_dim": None,
                              "invert": bool(c["invert"]), "layers": 2, "key": seed, "width": 3, "negative_slope": 0.5,
                              "tight": False})
    if k == "block_neural_autoregressive_flow" and (not c["invert"] or any(sg[0] != "data" for sg in (c.get("segments") or [[c["loop"]]]))):
        ctx.inconcl("bnaf_direction_without_reverse_mode_gradient")  # documented asymmetry (DESIGN F6)
        return
    dist = bd.perturb(dist, 0.2, seed)
    if k != "nested_chains":
        dist = freeze(dist, c["freeze"], c["bits"])
    # restructuring operations that "never change the function" (C08) must not un-freeze anything either: every array
    # that was frozen before is still frozen, bit-identical, afterwards - and the training clauses below run on the result
    rs = c.get("restructure")
    if rs and isinstance(dist, D.AbstractTransformed):
        before = sorted(a.tobytes() for a in frozen_arrays(dist))
        if rs == "merge_transforms":
            dist = lib_call("C12|frozen|merge_transforms", dist.merge_transforms)
        elif isinstance(dist.bijection, B.Chain):
            dist = eqx.tree_at(lambda d: d.bijection, dist, lib_call("C12|frozen|merge_chains", dist.bijection.merge_chains))
        after = sorted(a.tobytes() for a in frozen_arrays(dist))
        if before != after:
            raise Violation(f"C12|frozen|marker_lost_by|{rs}", f"{k}: {len(before)} frozen arrays before {rs}, {len(after)} after "
                                                              f"(or their values changed)")
        ctx.hist("restructured", f"{k}/{rs}")
    dim = W.unwrap(dist).shape[0]  # (attributes of a wholly wrapped sub-tree are only reachable after unwrap: documented)
    who = f"{k}|freeze={c['freeze']}"
    x = jr.normal(jr.PRNGKey(seed + 1), (8, dim)) * 0.7
    # exactly zero gradient on frozen leaves
    g = lib_call(f"C12|frozen|{who}|filter_grad", eqx.filter_grad(lambda d: jnp.mean(d.log_prob(x))), dist)
    for arr in frozen_arrays(g):
        if np.issubdtype(arr.dtype, np.inexact) and np.any(arr != 0):
            raise Violation(f"C12|frozen|nonzero_gradient|{who}", f"gradient on a frozen leaf: {arr.tolist()}")
    fb, nb, tb = frozen_arrays(dist), nonfloat_arrays(dist), trainable_arrays(dist)
    # a HISTORY of training segments: each is one call of either loop with its own optimiser and step count
    segments = c.get("segments") or [[c["loop"], c["opt"], int(c["steps"]), bool(c["return_best"])]]
    out = dist
    for si, (loop, optname, steps, rb) in enumerate(segments):
        opt = OPTS[optname]()
        if loop == "data":
            out, _ = lib_call(f"C12|frozen|{who}|fit_to_data", fit_to_data, jr.PRNGKey(seed + 2 + si), out, x, max_epochs=int(steps),
                              batch_size=6, val_prop=0.25, optimizer=opt, show_progress=False, return_best=bool(rb),
                              max_patience=10)
        else:
            target = lambda v: -0.5 * jnp.sum((v - 0.3) ** 2)  # noqa: E731
            out, _ = lib_call(f"C12|frozen|{who}|fit_to_variational_target", fit_to_variational_target, jr.PRNGKey(seed + 2 + si),
                              out, ElboLoss(target, 4), steps=int(steps), optimizer=opt, show_progress=False, return_best=bool(rb))
    steps = sum(int(sg[2]) for sg in segments)
    fa, na, ta = frozen_arrays(out), nonfloat_arrays(out), trainable_arrays(out)
    if len(fa) != len(fb) or any(u.tobytes() != v.tobytes() for u, v in zip(fb, fa)):
        bad = next((u, v) for u, v in zip(fb, fa) if u.tobytes() != v.tobytes()) if len(fa) == len(fb) else (None, None)
        raise Violation(f"C12|frozen|moved_during_training|loops={'+'.join(sorted({sg[0] for sg in segments}))}|opts={'+'.join(sorted({sg[1] for sg in segments}))}",
                        f"{who}: frozen leaf {None if bad[0] is None else bad[0].tolist()} -> "
                        f"{None if bad[1] is None else bad[1].tolist()} after {steps} steps")
    if len(na) != len(nb) or any(u.tobytes() != v.tobytes() for u, v in zip(nb, na)):
        raise Violation("C12|frozen|non_float_leaf_changed", who)
    moved = any(u.tobytes() != v.tobytes() for u, v in zip(tb, ta))
    if moved and fb:
        ctx.mark_nontrivial(c)
    ctx.hist("freeze_mode", c["freeze"])
    for sg in segments:
        ctx.hist("optimizer", sg[1])
        ctx.hist("loop", sg[0])
    ctx.hist("segments", len(segments))


def oracle_conditioner(c, ctx):
    """Frozen transformer parameters are not parameterised by the conditioner."""
    dim, which = int(c["dim"]), c["which"]
    loc0, scale0 = float(c["loc0"]), float(c["scale0"])
    t = B.Affine(loc0, scale0)
    t = eqx.tree_at(lambda a: getattr(a, which), t, replace_fn=W.NonTrainable)
    key = jr.PRNGKey(int(c["seed"]))
    cond = c["cond"]
    if c["layer"] == "coupling":
        obj = B.Coupling(key, transformer=t, untransformed_dim=1, dim=dim, cond_dim=cond, nn_width=3, nn_depth=1)
        tr = slice(1, None)
    else:
        obj = B.MaskedAutoregressive(key, transformer=t, dim=dim, cond_dim=cond, nn_width=3, nn_depth=1)
        tr = slice(0, None)
    obj = bd.perturb(obj, float(c["pscale"]), int(c["seed"]))
    x = jr.normal(jr.PRNGKey(int(c["seed"]) + 1), (dim,))
    cc = None if cond is None else jr.normal(jr.PRNGKey(int(c["seed"]) + 2), (cond,))
    y0 = np.asarray(obj.transform(x.at[tr].set(0.0), cc), np.float64)[tr]
    y1 = np.asarray(obj.transform(x.at[tr].set(1.0), cc), np.float64)[tr]
    if c["layer"] == "maf":  # autoregressive: set coordinates one at a time
        y0 = np.asarray([float(obj.transform(x.at[i].set(0.0), cc)[i]) for i in range(dim)])
        y1 = np.asarray([float(obj.transform(x.at[i].set(1.0), cc)[i]) for i in range(dim)])
    if which == "loc" and not np.all(np.abs(y0 - loc0) <= 1e-10 * (1 + abs(loc0))):
        raise Violation(f"C12|conditioner_parameterises_frozen|{c['layer']}|loc", f"y(x_i=0) = {y0.tolist()} but frozen loc = {loc0}")
    if which == "scale" and not np.all(np.abs((y1 - y0) - scale0) <= 1e-9 * (1 + abs(scale0))):
        raise Violation(f"C12|conditioner_parameterises_frozen|{c['layer']}|scale", f"y(1)-y(0) = {(y1 - y0).tolist()} but frozen scale = {scale0}")
    if float(c["pscale"]) > 0:
        ctx.mark_nontrivial(c)
    ctx.hist("conditioner", f"{c['layer']}/{which}")


def oracle(c, ctx):
    ctx.evaluated()
    {"expr": oracle_expr, "frozen": oracle_frozen, "conditioner": oracle_conditioner}.get(c.get("what"), oracle_methods)(c, ctx)
    if ctx.evaluations % 31 == 1:
        ctx.sample(c)


def replay(spec, ctx):
    oracle(spec.get("spec", spec) if ("what" not in spec and "kind" not in spec) else spec, ctx)


@st.composite
def expr_cases(draw):
    return {"what": "expr", "e1": draw(exprs(3)), "e2": draw(exprs(2)), "nvmap": draw(st.integers(0, 2)),
            "container": draw(st.sampled_from(["dict", "list", "tuple", "module"])), "seed": draw(st.integers(0, 999))}


@st.composite
def frozen_cases(draw):
    return {"what": "frozen", "model": draw(st.sampled_from(["normal", "coupling_flow", "masked_autoregressive_flow", "planar_flow",
                                                            "triangular_spline_flow", "block_neural_autoregressive_flow",
                                                            "studentt_base_flow", "nested_chains", "nested_chains"])),
            "restructure": draw(st.sampled_from([None, "merge_transforms", "merge_chains"])),
            "dim": draw(st.integers(1, 3)), "invert": draw(st.booleans()), "seed": draw(st.integers(0, 999)),
            "freeze": draw(st.sampled_from(["subset", "subset", "base", "base_leaves", "bijection", "all"])),
            "bits": draw(st.lists(st.booleans(), min_size=5, max_size=5)),
            "segments": draw(st.lists(st.tuples(st.sampled_from(["data", "vi"]), st.sampled_from(sorted(OPTS)), st.integers(1, 3),
                                                st.booleans()).map(list), min_size=1, max_size=3))}


@st.composite
def conditioner_cases(draw):
    return {"what": "conditioner", "layer": draw(st.sampled_from(["coupling", "maf"])), "dim": draw(st.integers(2, 4)),
            "which": draw(st.sampled_from(["loc", "scale"])), "loc0": draw(st.floats(-3, 3)), "scale0": draw(st.floats(0.2, 4)),
            "cond": draw(st.sampled_from([None, 2])), "pscale": draw(st.sampled_from([0.0, 0.5, 2.0])), "seed": draw(st.integers(0, 999))}


def run(ctx):
    q = ctx.tier == "quick"
    run_hypothesis(ctx, expr_cases(), oracle, 60 if q else 500, "C12-wrapper-expressions")
    run_hypothesis(ctx, bc.leaf_cases(inv=False), oracle, 25 if q else 250, "C12-methods-leaves")
    run_hypothesis(ctx, bc.flow_cases(), oracle, 4 if q else 30, "C12-methods-flows")
    run_hypothesis(ctx, frozen_cases(), oracle, 12 if q else 120, "C12-frozen")
    run_hypothesis(ctx, conditioner_cases(), oracle, 12 if q else 150, "C12-conditioner")
