"""C04 - flow densities integrate to one and the sampler draws from them.

Normalisation: deterministic composite-Simpson quadrature of exp(log_prob) on a sinh-stretched grid
x = m + s*sinh(t) (reaches |x| ~ 6e5*s: LeakyTanh tails have slope 0.0099), centre/scale from sample
quantiles; convergence is MEASURED (n vs 2n nodes): not converged => inconclusive, never a violation.
Sampler: fixed-key samples vs the cumulative quadrature, KS distance <= DKW(1e-9) + quadrature error
(2-D: both marginals, obtained by integrating the grid over the other coordinate).
The inverter-free orientation of BNAF is integrated FIRST (a non-onto activation shows up there as lost
mass before the bisection is ever asked for a root that does not exist)."""
import math

import equinox as eqx
import jax
import jax.numpy as jnp
import jax.random as jr
import numpy as np
from hypothesis import strategies as st

from flowjax import distributions as D
from vf import build as bd
from vf import gen
from vf.core import Violation, lib_call, run_hypothesis


def simpson_w(n):
    w = np.ones(n)
    w[1:-1:2] = 4
    w[2:-1:2] = 2
    return w / 3.0


def grid(n, T):
    t = np.linspace(-T, T, n)
    return t, simpson_w(n) * (t[1] - t[0])


def dkw(n, alpha=1e-9):
    return math.sqrt(math.log(2 / alpha) / (2 * n))


def batched_log_prob(dist, X, c):
    f = jax.jit(lambda x: dist.log_prob(x, c))
    out = []
    for i in range(0, len(X), 20000):
        out.append(np.asarray(f(jnp.asarray(X[i:i + 20000])), np.float64))
    return np.concatenate(out)


def centre_scale(col):
    q = np.quantile(col, [0.25, 0.5, 0.75])
    return float(q[1]), float(max((q[2] - q[0]) / 1.35, 1e-3))


def cell_nodes(a, b, m):
    """Composite Simpson nodes/weights on each cell [a_j, b_j] with m (odd) nodes."""
    u = np.linspace(0.0, 1.0, m)
    x = a[:, None] + (b - a)[:, None] * u[None, :]
    w = simpson_w(m)[None, :] * ((b - a) / (m - 1))[:, None]
    return x, w


def check_1d(dist, c, key, who, ctx, n_nodes, n_samples, base=None):
    """Sample-adapted quadrature: cells are inter-quantile intervals of the fixed-key sample (each holds
    ~1/K of the mass IF the sampler follows the density, so no spike can hide between nodes; if it does
    not, either the mass or the KS clause fails - which is a genuine violation either way), extended by
    geometrically growing tail cells far beyond the extreme samples."""
    cj = None if c is None else jnp.asarray(c)
    S = np.asarray(lib_call(f"C04|{who}|sample", dist.sample, key, (n_samples,), cj), np.float64).reshape(-1)
    if not np.all(np.isfinite(S)):
        raise Violation(f"C04|{who}|sample_nonfinite", f"{np.sum(~np.isfinite(S))} of {n_samples} samples are not finite")
    S = np.sort(S)
    K = 400
    levels = np.arange(0, K + 1) / K
    knots = np.quantile(S, levels)
    keep = np.concatenate([[True], np.diff(knots) > 0])
    knots, levels = knots[keep], levels[keep]
    if len(knots) < 20:
        ctx.inconcl("degenerate_sample")
        return None
    wl, wr = knots[1] - knots[0], knots[-1] - knots[-2]
    span = knots[-1] - knots[0]
    left = knots[0] - np.cumsum(np.maximum(wl, 1e-12 * span) * 1.6 ** np.arange(70))[::-1]
    right = knots[-1] + np.cumsum(np.maximum(wr, 1e-12 * span) * 1.6 ** np.arange(70))
    edges = np.concatenate([left, knots, right])
    a, b = edges[:-1], edges[1:]
    res = []
    for m in (9, 17):
        x, w = cell_nodes(a, b, m)
        lp = lib_call(f"C04|{who}|log_prob", batched_log_prob, dist, x.reshape((-1,) + tuple(dist.shape)), cj)
        if np.any(np.isnan(lp)):
            raise Violation(f"C04|{who}|log_prob_nan", "NaN log_prob on the quadrature grid")
        f = np.exp(np.minimum(lp, 700.0)).reshape(x.shape)
        res.append(np.sum(w * f, axis=1))
    c1, c2 = res
    I1, I2 = float(np.sum(c1)), float(np.sum(c2))
    delta = 3e-3
    ctx.ratio("1d_convergence_gap/delta", abs(I1 - I2) / delta)
    if float(np.sum(np.abs(c1 - c2))) > delta:
        ctx.inconcl("quadrature_not_converged_1d")
        ctx.hist("not_converged", who)
        return None
    if c2[0] + c2[-1] > 1e-6:
        ctx.inconcl("quadrature_range_not_covering_tails_1d")
        return None
    ctx.ratio("1d_|mass-1|/(4delta)", abs(I2 - 1) / (4 * delta))
    if abs(I2 - 1) > 4 * delta:
        raise Violation(f"C04|{who}|mass", f"density integrates to {I2:.5f} (17 nodes/cell; 9 nodes/cell: {I1:.5f}; {len(a)} cells); "
                                           f"condition={None if c is None else np.asarray(c).tolist()}")
    # sampler vs density: CDF at the quantile knots from the quadrature vs the empirical levels
    F = np.cumsum(c2)  # F at right edge of each cell
    Fk = F[len(left) - 1: len(left) - 1 + len(knots)]
    ks = float(np.max(np.abs(Fk - levels)))
    bound = dkw(n_samples) + abs(I2 - 1) + delta + 1.0 / n_samples
    ctx.ratio("1d_ks/bound", ks / bound)
    if ks > bound:
        raise Violation(f"C04|{who}|sampler_vs_density", f"KS distance {ks:.4f} between {n_samples} samples and the density's CDF "
                                                         f"exceeds {bound:.4f}")
    tv = None
    if base is not None:
        x, w = cell_nodes(a, b, 17)
        lb = batched_log_prob(base, x.reshape((-1,) + tuple(dist.shape)), None).reshape(x.shape)
        lpf = batched_log_prob(dist, x.reshape((-1,) + tuple(dist.shape)), cj).reshape(x.shape)
        tv = 0.5 * float(np.sum(w * np.abs(np.exp(np.minimum(lpf, 700.0)) - np.exp(lb))))
    return tv


def check_2d(dist, c, key, who, ctx, n_nodes, n_samples, base=None):
    cj = None if c is None else jnp.asarray(c)
    S = np.asarray(lib_call(f"C04|{who}|sample", dist.sample, key, (n_samples,), cj), np.float64)
    if not np.all(np.isfinite(S)):
        raise Violation(f"C04|{who}|sample_nonfinite", "non-finite samples")
    (m0, s0), (m1, s1) = centre_scale(S[:, 0]), centre_scale(S[:, 1])
    res = []
    for n in (n_nodes, 2 * n_nodes - 1):
        t, w = grid(n, 9.0)
        x0, x1 = m0 + s0 * np.sinh(t), m1 + s1 * np.sinh(t)
        X = np.stack(np.meshgrid(x0, x1, indexing="ij"), -1).reshape(-1, 2)
        lp = lib_call(f"C04|{who}|log_prob", batched_log_prob, dist, X, cj).reshape(n, n)
        if np.any(np.isnan(lp)):
            raise Violation(f"C04|{who}|log_prob_nan", "NaN log_prob on the quadrature grid")
        f = np.exp(np.minimum(lp, 700.0)) * (s0 * np.cosh(t))[:, None] * (s1 * np.cosh(t))[None, :]
        res.append((float(w @ f @ w), t, w, x0, x1, f))
    (I1, *_), (I2, t, w, x0, x1, f) = res
    for ax, xs in ((0, x0), (1, x1)):  # soundness guard: the grid must resolve where the samples concentrate
        h, _ = np.histogram(S[:, ax], bins=xs)
        if h.max() / n_samples > 0.06:
            ctx.inconcl("grid_too_coarse_for_sample_concentration_2d")
            return None
    delta = 5e-3
    ctx.ratio("2d_convergence_gap/delta", abs(I1 - I2) / delta)
    if abs(I1 - I2) > delta:
        ctx.inconcl("quadrature_not_converged_2d")
        return None
    ctx.ratio("2d_|mass-1|/(4delta)", abs(I2 - 1) / (4 * delta))
    if abs(I2 - 1) > 4 * delta:
        raise Violation(f"C04|{who}|mass", f"2-D density integrates to {I2:.5f} ({len(t)}^2 nodes; half: {I1:.5f})")
    for ax, xs, marg in ((0, x0, f @ w), (1, x1, w @ f)):
        F = np.concatenate([[0.0], np.cumsum(0.5 * (marg[1:] + marg[:-1]) * np.diff(t))])
        col = np.sort(S[:, ax])
        Fs = np.interp(col, xs, F)
        k = np.arange(1, n_samples + 1) / n_samples
        ks = float(max(np.max(k - Fs), np.max(Fs - (k - 1.0 / n_samples))))
        bound = dkw(n_samples) + abs(I2 - 1) + 2 * delta
        ctx.ratio("2d_ks/bound", ks / bound)
        if ks > bound:
            raise Violation(f"C04|{who}|sampler_vs_density", f"marginal {ax}: KS distance {ks:.4f} > {bound:.4f}")
    if base is not None:
        X = np.stack(np.meshgrid(x0, x1, indexing="ij"), -1).reshape(-1, 2)
        lb = batched_log_prob(base, X, None).reshape(len(t), len(t))
        fb = np.exp(lb) * (s0 * np.cosh(t))[:, None] * (s1 * np.cosh(t))[None, :]
        return 0.5 * float(w @ np.abs(f - fb) @ w)
    return None


def oracle(c, ctx):
    ctx.evaluated()
    q = ctx.tier == "quick"
    key = jr.PRNGKey(int(c["key"]))
    if c["what"] == "flow":
        sp = dict(c["spec"])
        f, dim = sp["factory"], int(sp["dim"])
        order = [sp["invert"]]
        if f == "block_neural_autoregressive_flow":
            order = [True, False] if c.get("both", True) else [sp["invert"]]  # inverter-free orientation first
            sp["tight"] = False
        tvs = []
        for inv in order:
            flow = bd.build_flow(dict(sp, invert=inv))
            base = flow.base_dist
            conds = [None] if flow.cond_shape is None else [np.asarray(v, np.float64) for v in c["conds"]]
            for cc in conds:
                who = f"flow|{f}|dim={dim}|invert={inv}"
                if dim == 1:
                    tv = check_1d(flow, cc, key, who, ctx, 8001, 20000 if q else 100000, base)
                else:
                    tv = check_2d(flow, cc, key, who, ctx, 151 if q else 301, 20000 if q else 100000, base)
                tvs.append(tv)
        ctx.hist("factory", f"{f}/dim={dim}")
        if any(tv is not None and tv > 0.1 for tv in tvs):
            ctx.mark_nontrivial(c)
            ctx.hist("nontrivial_factory", f)
    else:
        node = bd.build(c["tree"], float(c["pscale"]))
        if np.any(node.dom != bd.R) or not (node.cod_exact and np.all(node.cod == bd.R)) or not node.invertible:
            ctx.inconcl("tree_not_onto_R")
            return
        base = {"Normal": D.Normal(0.3, 1.2), "Logistic": D.Logistic(-0.2, 0.8), "Laplace": D.Laplace(0.1, 0.9),
                "Gumbel": D.Gumbel(0.0, 1.1)}[c["base"]]
        dist = D.Transformed(base, node.obj)
        cc = bd.make_cond(c["craw"], dist.cond_shape)
        tv = check_1d(dist, cc, key, f"hand|{c['base']}|{node.kind}", ctx, 8001, 20000 if q else 100000, base)
        ctx.hist("hand_top", node.kind)
        if tv is not None and tv > 0.1:
            ctx.mark_nontrivial(c)
    if ctx.evaluations % 7 == 1:
        ctx.sample(c)


def replay(spec, ctx):
    oracle(spec.get("spec", spec) if "what" not in spec else spec, ctx)


@st.composite
def flow_cases(draw, dim):
    facs = [f for f in bd.FACTORIES if (dim > 1 or f != "coupling_flow") and (dim == 1 or f != "block_neural_autoregressive_flow")]
    sp = draw(gen.flow_spec(dim, facs + ["planar_flow"]))  # planar twice: its constraint only bites far from init (seeded C04_A)
    if sp["factory"] == "planar_flow" and draw(st.booleans()):
        sp["cond_dim"] = None
    sp["dim"] = dim
    sp["pscale"] = draw(st.sampled_from([0.1, 0.3] if dim == 1 else [0.1, 0.2]))
    if sp["factory"] == "planar_flow":
        # init is 0.01*N(0,1): the constraint only matters far from it (conditional: see vf/gen.py)
        sp["pscale"] = draw(st.sampled_from([0.3, 1.0, 2.0, 2.0] if sp.get("cond_dim") is None else [0.1, 0.3]))
        sp["negative_slope"] = draw(st.sampled_from([0.1, 0.5, None]))
        if sp["negative_slope"] is None:
            sp["negative_slope"] = 0.5  # tanh planar has only one direction: density and sampler cannot both be evaluated
    cd = sp.get("cond_dim")
    conds = [[draw(st.floats(-2, 2)) for _ in range(cd)] for _ in range(2)] if cd else []
    return {"what": "flow", "spec": sp, "key": draw(st.integers(0, 10**6)), "conds": conds}


@st.composite
def hand_cases(draw):
    return {"what": "hand", "tree": draw(gen.tree((), draw(st.sampled_from([None, None, (2,)])), 2, 5, numinv=False, big=False)),
            "base": draw(st.sampled_from(["Normal", "Logistic", "Laplace", "Gumbel"])), "pscale": draw(st.sampled_from([0.1, 0.3, 1.0])),
            "key": draw(st.integers(0, 10**6)), "craw": draw(st.lists(st.floats(-2, 2), min_size=3, max_size=3))}


def run(ctx):
    q = ctx.tier == "quick"
    run_hypothesis(ctx, flow_cases(1), oracle, 7 if q else 60, "C04-flows-1d", shrink=False)
    run_hypothesis(ctx, hand_cases(), oracle, 8 if q else 80, "C04-hand-1d", shrink=False)
    run_hypothesis(ctx, flow_cases(2), oracle, 3 if q else 30, "C04-flows-2d", shrink=False)
