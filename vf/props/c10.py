"""C10 - the bisection inverter finds the root of any increasing function.

Public entry point only: AutoregressiveBisectionInverter(lower, upper, tol, max_iter)(bijection_like, y).
``bijection_like`` is a duck-typed object (shape, transform) built from a family of increasing
maps with a root known BY CONSTRUCTION (g(x) == 0 iff x == r in floating point).  The search is
run under jax.disable_jit() so every evaluation point is observed and termination is decided by an
EVALUATION COUNT bound (never by wall clock); the traced path must agree with the compiled one."""
import math

import equinox as eqx
import jax
import jax.numpy as jnp
import jax.random as jr
import numpy as np
from hypothesis import strategies as st

from flowjax.bisection_search import AutoregressiveBisectionInverter
from vf import shim
from vf.core import Violation, lib_call, run_hypothesis

FAMILIES = ["linear", "cubic", "sinh", "saturating", "kinked", "composed"]
DT = np.float32 if shim.F32 else np.float64


def h_family(name, t, a, b):
    """Increasing in t, h(0) == 0, float-monotone (sums/compositions of monotone pieces)."""
    if name == "linear":
        return a * t
    if name == "cubic":
        return a * t + b * t**3
    if name == "sinh":
        return jnp.sinh(jnp.clip(a * t, -30.0, 30.0)) + b * t
    if name == "saturating":  # tanh plus a small linear tail (onto R, slope ratio up to 1e3)
        return a * jnp.tanh(t) + b * t
    if name == "kinked":  # slope a below 0, slope b above
        return jnp.where(t < 0, a * t, b * t)
    if name == "composed":
        u = jnp.where(t < 0, a * t, b * t)
        return u + jnp.tanh(u) + 0.25 * u**3
    raise ValueError(name)


def min_slope(name, a, b):
    return {"linear": a, "cubic": a, "sinh": b, "saturating": b, "kinked": min(a, b),
            "composed": min(a, b)}[name]


class TriMap(eqx.Module):
    """f_i(x) = h_i(x_i - r_i) + sum_{j<i} L_ij * tanh(x_j)   (lower triangular, increasing in x_i)."""
    r: jax.Array
    a: jax.Array
    b: jax.Array
    L: jax.Array
    fam: tuple = eqx.field(static=True)
    shape: tuple = eqx.field(static=True)
    log: list | None = eqx.field(static=True, default=None)
    cap: int = eqx.field(static=True, default=10**9)

    def transform(self, x, condition=None):
        if self.log is not None:
            self.log.append(np.asarray(x).copy())
            if len(self.log) > self.cap:
                raise Violation("C10|termination|evaluation_count",
                                f"more than {self.cap} function evaluations (bound from doubling+halving)")
        d = self.shape[0]
        parts = [h_family(self.fam[i], x[i] - self.r[i], self.a[i], self.b[i]) for i in range(d)]
        own = jnp.stack(parts)
        cross = jnp.tril(self.L, -1) @ jnp.tanh(x)
        return own + cross


def ulp(v):
    v = abs(float(v))
    return float(np.spacing(DT(v if v > 0 else np.finfo(DT).tiny)))


@eqx.filter_jit
def _jit_run(inverter, bij, y):
    return inverter(bij, y)


def oracle(spec, ctx):
    d = len(spec["r"])
    fam = tuple(spec["fam"])
    r = np.asarray(spec["r"], DT)
    a = np.asarray(spec["a"], DT)
    b = np.asarray(spec["b"], DT)
    L = np.asarray(spec["L"], DT).reshape(d, d)
    lower, upper = DT(spec["lower"]), DT(spec["upper"])
    tol, max_iter = float(spec["tol"]), int(spec["max_iter"])
    ctx.evaluated()
    w0 = float(upper) - float(lower)

    # --- error and evaluation-count bounds, from the property statement only -----------------
    e = np.zeros(d)  # bound on |x'_i - r_i|
    cap = 0
    details = []
    for i in range(d):
        m = float(min_slope(fam[i], a[i], b[i]))
        shift = float(np.sum(np.abs(np.tril(L, -1)[i]) * e)) / m  # root of the perturbed scalar problem moves
        lo_r, hi_r = float(r[i]) - shift, float(r[i]) + shift
        D = max(0.0, float(lower) - lo_r, hi_r - float(upper))
        W = 2.0 * (D + w0)
        delta = max(tol, W / 2.0 ** (max_iter + 1))
        mag = max(abs(float(r[i])), abs(float(lower)), abs(float(upper)))
        # "down to floating-point resolution at the ROOT's magnitude": once the bracket is narrower than 2 delta both of
        # its ends have magnitude <= |r| + shift + 2 delta, whatever the initial interval was (an allowance of ulp(max(|lower|,
        # |upper|)) hid the seeded change C10_D: tolerance floored at eps in float32, roots of magnitude 1e-3)
        e[i] = (shift + delta) * (1 + 1e-6) + 4 * ulp(abs(float(r[i])) + shift + 2 * delta)
        k_adapt = math.ceil(math.log2(1.0 + D / w0)) + 2
        sub_res = 2 * tol < 8 * ulp(mag + shift + D)  # width criterion unreachable: ends by max_iter
        n_bis = max_iter if sub_res else min(max_iter, max(0, math.ceil(math.log2(max(W / (2 * tol), 1.0))) + 2))
        cap += 2 + 2 * k_adapt + n_bis
        details.append((D, W, delta))
    log = []
    bij = TriMap(jnp.asarray(r), jnp.asarray(a), jnp.asarray(b), jnp.asarray(L), fam, (d,), log, cap + 1)
    y = np.asarray(bij.transform(jnp.asarray(r)))  # f(r): the root of f(x) - y is exactly r
    log.clear()
    inv = lib_call("C10|construct", AutoregressiveBisectionInverter, lower=lower, upper=upper, tol=tol,
                   max_iter=max_iter)
    with jax.disable_jit():
        x_tr = np.asarray(lib_call("C10|traced", inv, bij, jnp.asarray(y)))
    n_evals = len(log)
    err = np.abs(x_tr.astype(np.float64) - r.astype(np.float64))
    ratio = float(np.max(err / e))
    ctx.ratio("root_error/bound", ratio)
    ctx.ratio("evals/cap", n_evals / max(cap, 1))
    if not np.all(np.isfinite(x_tr)) or ratio > 1.0:
        i = int(np.argmax(err / e))
        raise Violation(f"C10|accuracy|{'scalar' if d == 1 else 'autoregressive'}",
                        f"coordinate {i}: returned {x_tr[i]!r}, root {r[i]!r}, |err|={err[i]:.3e} > bound {e[i]:.3e} "
                        f"(tol={tol}, max_iter={max_iter}, D/W/delta={details[i]}, evals={n_evals})")
    # compiled path agrees with the traced one
    if spec.get("jit", False):
        bij2 = TriMap(jnp.asarray(r), jnp.asarray(a), jnp.asarray(b), jnp.asarray(L), fam, (d,), None)
        x_j = np.asarray(lib_call("C10|jit", _jit_run, inv, bij2, jnp.asarray(y)))
        errj = np.abs(x_j.astype(np.float64) - r.astype(np.float64))
        if not np.all(errj <= e):
            raise Violation("C10|accuracy|jit", f"compiled path returned {x_j}, root {r}, bound {e}")
        ctx.hist("jit_equals_traced", bool(np.array_equal(x_j, x_tr)))
    # classification
    D0 = details[0][0]
    binding = details[0][2] > tol
    below_res = tol < ulp(float(r[0]))
    cls = ("outside" if D0 > 0 else "inside") + ("+maxiter" if binding else "") + ("+subulp" if below_res else "")
    ctx.hist("class", cls)
    ctx.hist("dim", d)
    ctx.hist("family", fam[0])
    if D0 > 0 or binding or below_res or d > 1:
        ctx.mark_nontrivial(spec)
    if ctx.evaluations % 23 == 1:
        ctx.sample(spec)


# ------------------------------- real BNAF -------------------------------------------------
def oracle_bnaf(spec, ctx):
    from flowjax.bijections import BlockAutoregressiveNetwork
    from vf.build import perturb

    ctx.evaluated()
    d = int(spec["dim"])
    cond = spec.get("cond_dim")
    bn = lib_call("C10|bnaf|construct", BlockAutoregressiveNetwork, jr.PRNGKey(int(spec["key"])), dim=d,
                  cond_dim=cond, depth=int(spec["depth"]), block_dim=int(spec["block_dim"]))
    bn = perturb(bn, float(spec["pscale"]), int(spec["pseed"]))
    y = jnp.asarray(np.asarray(spec["y"], DT))
    c = None if cond is None else jnp.asarray(np.asarray(spec["c"], DT))
    x = lib_call("C10|bnaf|inverse", bn.inverse, y, c)
    fx = lib_call("C10|bnaf|transform", bn.transform, x, c)
    J = np.asarray(jax.jacobian(lambda v: bn.transform(v, c))(x), np.float64)
    tol = 1e-7
    res = np.abs(np.asarray(fx, np.float64) - np.asarray(y, np.float64))
    xa = np.abs(np.asarray(x, np.float64))
    step = np.maximum(tol, 2 * np.array([ulp(v) for v in xa]))  # tol, or float resolution at x_i if coarser
    bound = 2.0 * np.abs(np.diag(J)) * step + 256 * np.finfo(DT).eps * (
        1 + np.abs(np.asarray(y, np.float64)) + np.abs(J) @ xa)
    ratio = float(np.max(res / bound))
    ctx.ratio("bnaf_residual/bound", ratio)
    if not np.all(np.isfinite(np.asarray(x))) or ratio > 1.0:
        raise Violation("C10|bnaf|residual", f"|f(inverse(y)) - y| = {res} exceeds 2*J_ii*max(tol,2ulp)+rounding = {bound}")
    if float(spec["pscale"]) > 0:
        ctx.mark_nontrivial(spec)
    ctx.hist("bnaf_dim", d)
    if ctx.evaluations % 11 == 1:
        ctx.sample(spec)


def replay(spec, ctx):
    spec = spec.get("spec", spec)
    (oracle_bnaf if spec.get("kind") == "bnaf" else oracle)(spec, ctx)


# ------------------------------- strategies -------------------------------------------------
def _slope():
    return st.sampled_from([1e-3, 1e-2, 0.1, 0.5, 1.0, 2.0, 10.0, 100.0, 1e3])


@st.composite
def scalar_or_tri(draw, max_dim):
    d = draw(st.integers(1, max_dim))
    lower = draw(st.sampled_from([-10.0, -1.0, 0.0, 0.3, -1e-3, 5.0, -100.0]))
    width = draw(st.sampled_from([20.0, 1.0, 1e-3, 0.7, 200.0, 3.0]))
    upper = lower + width
    lower, upper = float(DT(lower)), float(DT(upper))
    fam, r, a, b = [], [], [], []
    for i in range(d):
        f = draw(st.sampled_from(FAMILIES))
        fam.append(f)
        where = draw(st.sampled_from(["inside", "lower_end", "upper_end", "ulp_below", "ulp_above", "far_below",
                                      "far_above", "near_below", "near_above", "inside", "tiny", "tiny"]))
        u = draw(st.floats(0.01, 0.99))
        far = draw(st.sampled_from([1e6, 1e4, 37.0, 1e3]))
        ri = {"inside": lower + u * (upper - lower), "lower_end": lower, "upper_end": upper,
              "ulp_below": float(np.nextafter(DT(lower), DT(-np.inf))), "ulp_above": float(np.nextafter(DT(upper), DT(np.inf))),
              "far_below": lower - far * (1 + u), "far_above": upper + far * (1 + u),
              "near_below": lower - u * (upper - lower), "near_above": upper + u * (upper - lower),
              # roots of small magnitude wherever the interval is: float resolution at the root is far finer than at the
              # interval ends, so the requested tolerance (not the resolution) is what binds, also in float32
              "tiny": (1 if u > 0.5 else -1) * u * 10.0 ** (-draw(st.integers(2, 6)))}[where]
        r.append(float(DT(ri)))
        ai, bi = draw(_slope()), draw(_slope())
        if f in ("sinh",):
            ai = min(ai, 10.0)
        if f == "cubic":
            bi = min(bi, 1.0)
        if f == "composed":
            ai, bi = min(max(ai, 1e-2), 10.0), min(max(bi, 1e-2), 10.0)
        a.append(ai)
        b.append(bi)
    Lscale = draw(st.sampled_from([0.0, 0.1, 1.0, 5.0]))
    L = [draw(st.floats(-1, 1)) * Lscale for _ in range(d * d)]
    # keep the accumulated error bound meaningful: coupling / min slope bounded
    ms = min(min_slope(fam[i], a[i], b[i]) for i in range(d))
    if d > 1 and Lscale / ms > 50:
        L = [v * 50 * ms / Lscale for v in L]
    tol = draw(st.sampled_from([1e-2, 1e-3, 1e-4, 1e-5, 1e-6, 1e-7, 1e-8, 1e-9]))
    max_iter = draw(st.sampled_from([0, 5, 50, 200, 200, 200]))
    return {"fam": fam, "r": r, "a": a, "b": b, "L": L, "lower": lower, "upper": upper, "tol": tol,
            "max_iter": max_iter, "jit": draw(st.integers(0, 5)) == 0}


@st.composite
def bnaf_case(draw):
    d = draw(st.integers(1, 3))
    cond = draw(st.sampled_from([None, None, 2]))
    return {"kind": "bnaf", "dim": d, "cond_dim": cond, "depth": draw(st.integers(0, 2)),
            "block_dim": draw(st.integers(1, 3)), "key": draw(st.integers(0, 50)),
            "pscale": draw(st.sampled_from([0.0, 0.3, 1.0])), "pseed": draw(st.integers(0, 1000)),
            "y": [draw(st.floats(-8, 8)) for _ in range(d)],
            "c": None if cond is None else [draw(st.floats(-3, 3)) for _ in range(cond)]}


def run(ctx):
    q = ctx.tier == "quick"
    run_hypothesis(ctx, scalar_or_tri(1), oracle, 70 if q else 700, "C10-scalar")
    run_hypothesis(ctx, scalar_or_tri(6), oracle, 40 if q else 400, "C10-autoregressive")
    run_hypothesis(ctx, bnaf_case(), oracle_bnaf, 10 if q else 100, "C10-bnaf")
