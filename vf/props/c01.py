"""C01 - every bijection is invertible, both ways; '..._and_log_det' returns the same point.

Subjects: every leaf kind (perturbed parameters, boundary-directed inputs), generated expression
trees, and the bijection inside every premade flow.  Tolerances are scaled by the autodiff
Jacobian's conditioning (DESIGN 3.5); numerically inverted maps are judged by their residual."""
import jax.numpy as jnp
import numpy as np

from vf import bijcase as bc
from vf import build as bd
from vf.core import Violation, expect_raises, lib_call, run_hypothesis

K = 256.0  # rounding margin for leaves (probe: worst observed ratio with K=1 was 1.0)
EPS = bc.EPS
CTOL = 1e-9 if not bd.shim.F32 else 2e-3  # composite (tree / flow) tolerance factor
bc.PLANAR_TINY_F64 = 1e-4  # float64: a planar layer with |1 + s w.u_hat| in [1e-4, 1e-3] is ill- but not un-conditioned; the
# conditioning-scaled tolerance handles it (a clamp of that denominator at 1e-3 - seeded change C01_E - hid behind the old guard)
KAPPA_MAX = 1e-2 / (K * EPS)  # beyond this the rounding floor alone exceeds 1e-2: inconclusive


def _sig(s, what):
    return f"C01|{s.kind}|{s.name}|{what}"


def check_roundtrip(s: bc.Subject, ctx, sharp: bool):
    obj, x, cj = s.obj, s.x, s.cj
    W = _sig(s, "call")
    if getattr(s, "fwd_only_dir", None):  # tanh-planar flow: exactly one direction exists
        ok, missing = (("inverse", "transform") if s.fwd_only_dir == "inverse" else ("transform", "inverse"))
        lib_call(W, getattr(obj, ok), jnp.asarray(x), cj)
        for m in (missing, missing + "_and_log_det"):
            r = expect_raises(_sig(s, f"{m}|unimplemented_direction"), getattr(obj, m), jnp.asarray(x), cj)
            if r != "NotImplementedError":
                raise Violation(_sig(s, f"{m}|unimplemented_direction"), f"raised {r}, expected NotImplementedError")
        ctx.hist("forward_only", s.name)
        return
    y = np.asarray(lib_call(W, obj.transform, jnp.asarray(x), cj))
    y_ld = np.asarray(lib_call(W, obj.transform_and_log_det, jnp.asarray(x), cj)[0])
    if not s.invertible:  # planar-tanh: inverse must raise, not return garbage
        for m in ("inverse", "inverse_and_log_det"):
            r = expect_raises(_sig(s, f"{m}|unimplemented"), getattr(obj, m), jnp.asarray(y), cj)
            if r != "NotImplementedError":
                raise Violation(_sig(s, f"{m}|unimplemented"), f"raised {r}, expected NotImplementedError")
        ctx.hist("forward_only", s.name)
        return
    if not np.all(np.isfinite(y)):
        overflow = s.kind == "leaf" and ((s.name == "Exp" and bc.amax(x) > 700) or bc.amax(x) >= 100)
        if s.kind == "tree" and s.node is not None:  # genuine overflow of the composed maths (e.g. Exp of 1e3)?
            y_ref, _ = bd.ref_eval(s.node, "fwd", x, s.c, False)
            overflow = not np.all(np.isfinite(y_ref))
        if overflow:
            ctx.inconcl("overflow")
            return
        raise Violation(_sig(s, "transform|nonfinite"), f"transform({x.tolist()}) = {y.tolist()}")
    J = bc.jac_transform(s, x, y)
    ninv, kappa = bc.inv_norm(J)
    if not np.all(np.isfinite(J)) or not np.isfinite(kappa) or kappa > KAPPA_MAX:
        ctx.inconcl("ill_conditioned")
        return
    nj = float(np.max(np.sum(np.abs(J), axis=1)))
    xm, ym = bc.amax(x), bc.amax(y)
    M = max(xm, ym)
    if not sharp:
        tr = bd.Trace()
        bd.ref_eval(s.node, "fwd", x, s.c, False, tr) if s.node is not None else None
        M = max(M, tr.maxmag)
    # ---------- domain -> codomain -> domain ---------------------------------------------------
    xb = np.asarray(lib_call(W, obj.inverse, jnp.asarray(y), cj))
    xb_ld = np.asarray(lib_call(W, obj.inverse_and_log_det, jnp.asarray(y), cj)[0])
    if s.numinv:
        tol_x = (2 * s.tol_inv * (1 + kappa) + K * EPS * (1 + xm + ninv * (1 + ym) + kappa * (1 + xm))) * (1 if sharp else 100)
    elif sharp:
        tol_x = K * EPS * (1 + xm + ninv * (1 + ym) + kappa * (1 + xm))
    else:
        tol_x = CTOL * (1 + M) * (1 + ninv)
    err = bc.amax(xb - x) if np.all(np.isfinite(xb)) else np.inf
    ctx.ratio(f"{s.kind}.inv(fwd(x))-x / tol", err / tol_x)
    ctx.ratio(f"by_kind.{s.name}", err / tol_x)
    if err > tol_x:
        raise Violation(_sig(s, "inverse(transform(x))"),
                        f"x={x.tolist()} c={None if s.c is None else s.c.tolist()} y={y.tolist()} back={xb.tolist()} "
                        f"|err|={err:.3e} tol={tol_x:.3e} (||J^-1||={ninv:.3e})")
    # ---------- '..._and_log_det' returns the same point ---------------------------------------
    same_tol_y = (K * EPS * (1 + ym) * (1 + nj)) if sharp else CTOL * (1 + M) * (1 + nj)
    same_tol_x = tol_x
    if bc.amax(y_ld - y) > same_tol_y or y_ld.shape != y.shape:
        raise Violation(_sig(s, "transform_and_log_det.point"), f"{y_ld.tolist()} vs transform {y.tolist()}")
    if (bc.amax(xb_ld - xb) if np.all(np.isfinite(xb_ld)) else np.inf) > same_tol_x or xb_ld.shape != xb.shape:
        raise Violation(_sig(s, "inverse_and_log_det.point"), f"{xb_ld.tolist()} vs inverse {xb.tolist()}")
    moved = bc.amax(y - x) > 1e-6
    # ---------- codomain -> domain -> codomain ---------------------------------------------------
    if s.onto and s.yraw is not None:  # any real point is in the codomain: aim at the boundaries directly
        y2 = bd.make_input(s.yraw["xraw"], s.yraw["xpick"], s.pool, np.shape(x), np.zeros(np.shape(x), int),
                           s.yraw["sigma"])
        cls = "direct"
    else:
        y2, cls = y, "image"
    x2 = np.asarray(lib_call(W, obj.inverse, jnp.asarray(y2), cj))
    if not np.all(np.isfinite(x2)):
        if bc.amax(y2) >= 100:  # conditioner networks fed +-1e3 drive raw scales far outside the |raw| <= 50 box: genuine under/overflow
            ctx.inconcl("overflow_at_large_magnitude")
            return moved and tol_x <= 1e-6 * (1 + xm)
        if s.kind == "tree" and s.node is not None:
            x_ref, _ = bd.ref_eval(s.node, "inv", y2, s.c, False)
            if not np.all(np.isfinite(x_ref)):
                ctx.inconcl("overflow")
                return moved and tol_x <= 1e-6 * (1 + xm)
        raise Violation(_sig(s, "inverse|nonfinite"), f"inverse({y2.tolist()}) = {x2.tolist()}")
    y2b = np.asarray(lib_call(W, obj.transform, jnp.asarray(x2), cj))
    J2 = bc.jac_transform(s, x2, y2)
    nj2 = float(np.max(np.sum(np.abs(J2), axis=1)))
    ninv2, kappa2 = bc.inv_norm(J2)
    if not np.all(np.isfinite(J2)) or not np.isfinite(kappa2) or kappa2 > KAPPA_MAX:
        ctx.inconcl("ill_conditioned_codomain")
    else:
        x2m, y2m = bc.amax(x2), bc.amax(y2)
        # (the x2m term: evaluating the forward map rounds at the magnitude of its own argument, e.g. y = x + u*act(w.x+b)
        # with |x| = 1500 and y = 0 - seen as a false alarm of the planar-band phase with tol_y built from |J||x| alone)
        if s.numinv:  # residual of the numerical inverse: |f(x') - y| <= 2 ||J|| tol
            tol_y = (2 * nj2 * s.tol_inv + K * EPS * (1 + y2m + x2m + nj2 * (1 + x2m) + kappa2 * (1 + y2m))) * (1 if sharp else 100)
        elif sharp:
            tol_y = K * EPS * (1 + y2m + x2m + nj2 * (1 + x2m) + kappa2 * (1 + y2m))
        else:
            tol_y = CTOL * (1 + max(M, x2m, y2m)) * (1 + nj2)
        err2 = bc.amax(y2b - y2) if np.all(np.isfinite(y2b)) else np.inf
        ctx.ratio(f"{s.kind}.fwd(inv(y))-y / tol", err2 / tol_y)
        ctx.ratio(f"by_kind.{s.name}", err2 / tol_y)
        if err2 > tol_y:
            raise Violation(_sig(s, "transform(inverse(y))"),
                            f"y={y2.tolist()} c={None if s.c is None else s.c.tolist()} x={x2.tolist()} "
                            f"forth={y2b.tolist()} |err|={err2:.3e} tol={tol_y:.3e} ({cls})")
    ctx.hist("codomain_points", cls)
    ctx.hist(f"{s.kind}_kind", s.name)
    ctx.hist("boundary_input", bool(s.boundary))
    moved = bc.amax(y - x) > 1e-6
    if moved and tol_x <= 1e-6 * (1 + xm):
        return True
    return False


# ---------------------------------------------------------------------------------------------------
# elementary scalar functions over 30 decades: componentwise ("relative") rounding model
# ---------------------------------------------------------------------------------------------------
MAGS = [1e-30, 1e-20, 1e-12, 1e-8, 1e-5, 1e-3, 0.03, 0.3, 1.0, 2.0, 3.0, 5.0, 8.0, 9.0, 10.0, 12.0, 15.0, 17.0, 20.0, 25.0,
        30.0, 36.0, 40.0, 50.0, 80.0, 100.0, 300.0, 700.0]
TINY_NORMAL = 1e-37 if bd.shim.F32 else 1e-300  # below: subnormal, flushed to zero by XLA on CPU (not a flowjax matter)


def elementary_oracle(case, ctx):
    """Exp / SoftPlus / Tanh / LeakyTanh / Scale as scalar maps on a log-spaced grid.  A float carries RELATIVE
    precision, so "rounding scaled by the map's conditioning" is the componentwise bound
        |inverse(transform(x)) - x| <= K eps (|x| + |J^-1| |y|),   |transform(inverse(y)) - y| <= K eps (|y| + |J| |x|)
    (J = autodiff derivative of the plain transform).  The (1 + ...) absolute terms of the general leaf check hide
    losses of relative accuracy at tiny images, e.g. softplus(x) for x < -9 (seeded change C01_D)."""
    import jax
    from flowjax import bijections as B
    k = case["k"]
    mv = float(case.get("max_val", 3.0))
    obj = {"Exp": lambda: B.Exp(), "SoftPlus": lambda: B.SoftPlus(), "Tanh": lambda: B.Tanh(),
           "LeakyTanh": lambda: B.LeakyTanh(mv), "Scale": lambda: B.Scale(jnp.asarray(float(case.get("scale", 1.0)), bd.FDT))}[k]()
    who = f"C01|elementary|{k}"
    dfun = jax.grad(lambda v: obj.transform(v))
    mult = case["mult"]
    KK = 64.0
    for i, m in enumerate(MAGS):
        for sgn in (1.0, -1.0):
            v = np.asarray(sgn * m * mult[i % len(mult)], bd.FDT)
            # ---- domain point ------------------------------------------------------------------
            x = v
            y = np.asarray(lib_call(who, obj.transform, jnp.asarray(x)))
            J = float(np.asarray(dfun(jnp.asarray(x))))
            sat = (k in ("Tanh",) and abs(float(y)) >= 1.0)
            if np.isfinite(y) and np.isfinite(J) and abs(J) > TINY_NORMAL and abs(float(y)) > TINY_NORMAL and not sat:
                xb = float(np.asarray(lib_call(who, obj.inverse, jnp.asarray(y))))
                xb2 = float(np.asarray(lib_call(who, obj.inverse_and_log_det, jnp.asarray(y))[0]))
                tol = KK * EPS * (abs(float(x)) + abs(float(y)) / abs(J))
                ctx.evaluated()
                for name, got in (("inverse(transform(x))", xb), ("inverse_and_log_det.point", xb2)):
                    err = abs(got - float(x)) if np.isfinite(got) else np.inf
                    ctx.ratio(f"elementary.{k}", err / tol)
                    if err > tol:
                        raise Violation(f"{who}|{name}", f"x={float(x)!r} y={float(y)!r} back={got!r} |err|={err:.3e} "
                                                         f"componentwise tol={tol:.3e} (dy/dx={J:.3e})")
                if abs(float(x)) >= 8 or abs(float(x)) <= 1e-5:
                    ctx.mark_nontrivial(f"elem|{k}|x|{float(x)!r}")
            # ---- codomain point -----------------------------------------------------------------
            yy = v
            if k in ("Exp", "SoftPlus"):
                yy = np.abs(v)
            elif k == "Tanh":
                yy = np.asarray(sgn * (1.0 - min(m, 0.5)) if m > 1e-3 else v, bd.FDT) if abs(float(v)) >= 1 or m > 1e-3 else v
                if abs(float(yy)) >= 1.0:
                    continue
            x2 = np.asarray(lib_call(who, obj.inverse, jnp.asarray(yy)))
            if not np.isfinite(x2) or abs(float(x2)) < TINY_NORMAL:
                if k in ("Exp", "SoftPlus", "Scale", "LeakyTanh") and np.isfinite(yy) and TINY_NORMAL < abs(float(yy)) < 1e300 and not np.isfinite(x2):
                    raise Violation(f"{who}|inverse|nonfinite", f"inverse({float(yy)!r}) = {float(x2)!r}")
                continue
            J2 = float(np.asarray(dfun(jnp.asarray(x2))))
            y2 = float(np.asarray(lib_call(who, obj.transform, jnp.asarray(x2))))
            if not (np.isfinite(J2) and np.isfinite(y2)):
                continue
            tol = KK * EPS * (abs(float(yy)) + abs(J2) * abs(float(x2)))
            err = abs(y2 - float(yy))
            ctx.evaluated()
            ctx.ratio(f"elementary.{k}", err / max(tol, 1e-300))
            if err > tol:
                raise Violation(f"{who}|transform(inverse(y))", f"y={float(yy)!r} x={float(x2)!r} forth={y2!r} |err|={err:.3e} "
                                                                f"componentwise tol={tol:.3e} (dy/dx={J2:.3e})")
            if abs(float(yy)) <= 1e-5:
                ctx.mark_nontrivial(f"elem|{k}|y|{float(yy)!r}")
    ctx.hist("elementary_kind", k)


def elementary_cases():
    from hypothesis import strategies as st

    @st.composite
    def f(draw):
        k = draw(st.sampled_from(["Exp", "SoftPlus", "SoftPlus", "Tanh", "LeakyTanh", "Scale"]))
        return {"kind": "elementary", "k": k, "max_val": draw(st.sampled_from([0.5, 1.0, 3.0, 5.0])),
                "scale": draw(st.sampled_from([1e-6, 0.37, 1.0, 2.5, 1e6])),
                "mult": draw(st.lists(st.floats(1.0, 1.99, allow_nan=False), min_size=5, max_size=5))}
    return f()


def planar_band_oracle(case, ctx):
    """Leaky-relu Planar layers whose raw parameters are SOLVED so that 1 + w.u_hat = t for a drawn t in [2e-4, 0.3]:
    ill-conditioned but far from singular in float64 (random perturbations reach t < 1e-3 in well under 1 % of cases).
    Judged by the ordinary conditioning-scaled round trip."""
    import math
    import equinox as eqx
    import jax.random as jr
    from flowjax.bijections import Planar
    d = int(case["dim"])
    w = np.asarray(case["w"][:d], np.float64)
    if np.linalg.norm(w) < 0.1:
        w = w + 0.5
    t = float(case["t"])
    # constrained w.u_hat = m(w.u) = -1 + log(1 + softplus(w.u))  =>  w.u = softplus^-1(expm1(t))
    sp = math.expm1(t)
    wu = math.log(math.expm1(sp)) if sp < 30 else sp
    perp = np.asarray(case["perp"][:d], np.float64)
    perp = perp - (perp @ w) / (w @ w) * w
    u = wu / (w @ w) * w + perp
    obj = Planar(jr.PRNGKey(0), dim=d, negative_slope=float(case["slope"]))
    obj = eqx.tree_at(lambda pl: pl.params, obj, jnp.asarray(np.concatenate([w, u, [float(case["b"])]]).astype(bd.FDT)))
    x = np.asarray(case["x"][:d], bd.FDT)
    s = bc.Subject("leaf", "Planar", obj, x, None, node=None, invertible=True, numinv=False, onto=True, pool=[])
    s.yraw = case.get("yinp")
    ctx.evaluated()
    check_roundtrip(s, ctx, sharp=True)
    ctx.hist("planar_band_decade", int(math.floor(math.log10(t))))
    ctx.mark_nontrivial(case)


def planar_band_cases():
    from hypothesis import strategies as st
    from vf import gen

    @st.composite
    def f(draw):
        return {"kind": "planar_band", "dim": draw(st.integers(1, 3)), "w": draw(st.lists(st.floats(-2, 2), min_size=3, max_size=3)),
                "perp": draw(st.lists(st.floats(-2, 2), min_size=3, max_size=3)), "b": draw(st.floats(-1, 1)),
                "t": 10.0 ** draw(st.floats(-3.7, -0.5)), "slope": draw(st.sampled_from([0.1, 0.5, 0.9])),
                "x": draw(st.lists(st.floats(-3, 3), min_size=3, max_size=3)), "yinp": draw(gen.inputs())}
    return f()


def oracle(case, ctx):
    if case.get("kind") == "planar_band":
        return planar_band_oracle(case, ctx)
    if case.get("kind") == "elementary":
        return elementary_oracle(case, ctx)
    ctx.evaluated()
    s = bc.prepare(case)
    s.yraw = case.get("yinp")
    if s.node is not None and any(n.kind == "Planar" for n in s.node.walk()) and bc.tree_has_degenerate_planar(s.node, s.x, s.c):
        ctx.inconcl("planar_numerically_singular")
        return
    nontrivial = check_roundtrip(s, ctx, sharp=(s.kind == "leaf"))
    # every leaf occurrence inside a tree is ALSO checked, sharply, on the input it actually received
    if s.kind == "tree" and s.node is not None and s.invertible:
        tr = bd.Trace()
        bd.ref_eval(s.node, "fwd", s.x, s.c, False, tr)
        for n, d, xx, cc in tr.leaf_calls[:3]:
            if d != "fwd" or not n.invertible or not np.all(np.isfinite(xx)):
                continue
            ls = bc.Subject("leaf", n.kind, n.obj, xx, cc, node=n, invertible=True, numinv=n.numinv, onto=False,
                            tol_inv=s.tol_inv)
            ls.yraw = None
            check_roundtrip(ls, ctx, sharp=True)
    if nontrivial:
        ctx.mark_nontrivial(case)
    if ctx.evaluations % 41 == 1:
        ctx.sample(case)


def planar_probe(c, ctx):
    """Planar layer with explicit raw parameters and slope (known finding D7: negative_slope > 1)."""
    import equinox as eqx
    import jax.random as jr
    from flowjax.bijections import Planar

    d = len(c["w"])
    obj = Planar(jr.PRNGKey(0), dim=d, negative_slope=c["slope"])
    obj = eqx.tree_at(lambda p: p.params, obj, jnp.asarray(np.asarray(c["w"] + c["u"] + [c["b"]], bd.FDT)))
    x = np.asarray(c["x"], bd.FDT)
    y = obj.transform(jnp.asarray(x))
    xb = np.asarray(obj.inverse(y))
    if bc.amax(xb - x) > 1e-6 * (1 + bc.amax(x)):
        raise Violation("C01|leaf|Planar|negative_slope>1|inverse(transform(x))",
                        f"x={x.tolist()} y={np.asarray(y).tolist()} back={xb.tolist()} (slope {c['slope']})")


def replay(spec, ctx):
    spec = spec.get("spec", spec) if "kind" not in spec else spec
    if spec.get("kind") == "planar_probe":
        return planar_probe(spec, ctx)
    oracle(spec, ctx)


def _with_y(strategy):
    from hypothesis import strategies as st

    from vf import gen

    return st.builds(lambda c, y: dict(c, yinp=y), strategy, gen.inputs())


def run(ctx):
    q = ctx.tier == "quick"
    run_hypothesis(ctx, elementary_cases(), oracle, 6 if q else 40, "C01-elementary")
    if not bd.shim.F32:
        run_hypothesis(ctx, planar_band_cases(), oracle, 25 if q else 250, "C01-planar-band")
    run_hypothesis(ctx, _with_y(bc.leaf_cases()), oracle, 110 if q else 1200, "C01-leaves")
    run_hypothesis(ctx, _with_y(bc.tree_cases(3, 8) if q else bc.tree_cases(4, 14)), oracle, 30 if q else 250,
                   "C01-trees")
    run_hypothesis(ctx, _with_y(bc.flow_cases()), oracle, 7 if q else 50, "C01-flows")
