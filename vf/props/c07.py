"""C07 - elementary bijections compute their documented functions (float64 NumPy references written
from the docstrings / cited papers; never from the implementation)."""
import math

import equinox as eqx
import jax
import jax.numpy as jnp
import jax.random as jr
import numpy as np
from hypothesis import strategies as st

from flowjax import bijections as B
from flowjax.wrappers import unwrap
from vf import build as bd
from vf.core import Violation, lib_call, run_hypothesis

RT = 1e-12


def close(got, want, where, detail="", rt=RT, scale=None):
    got, want = np.asarray(got, np.float64), np.asarray(want, np.float64)
    if got.shape != want.shape:
        raise Violation(f"C07|{where}|shape", f"shape {got.shape} vs reference {want.shape}; {detail}")
    sc = (1 + np.abs(want)) if scale is None else scale
    bad = ~(np.abs(got - want) <= rt * sc)
    if np.any(bad):
        raise Violation(f"C07|{where}", f"got {got.tolist()} reference {want.tolist()}; {detail}")
    return float(np.max(np.abs(got - want) / (rt * sc), initial=0.0))


def fl(lo=-10.0, hi=10.0):
    return st.floats(lo, hi, allow_nan=False, allow_subnormal=False)


def arr(shape, elems):
    n = int(np.prod(shape)) if len(shape) else 1
    return st.lists(elems, min_size=n, max_size=n).map(lambda v: np.asarray(v, np.float64).reshape(shape).tolist())


def logu(lo=1e-3, hi=1e3):
    return st.floats(math.log(lo), math.log(hi)).map(math.exp)


SHAPES = st.sampled_from([(), (1,), (3,), (2, 3), (2, 1, 2)])


def sub_shapes(shape):
    """Shapes that broadcast to `shape`."""
    outs = [tuple(shape), ()]
    for i in range(len(shape)):
        s = list(shape)
        s[i] = 1
        outs.append(tuple(s))
        outs.append(tuple(s[i:]))
        outs.append(tuple(shape[i:]))
    return sorted(set(outs))


def softplus(v):
    return np.logaddexp(0.0, v)


# ------------------------------------------------------------------------------------------------
@st.composite
def affine_cases(draw):
    shape = draw(SHAPES)
    which = draw(st.sampled_from(["Affine", "Affine", "Loc", "Scale"]))
    ls = draw(st.sampled_from(sub_shapes(shape))) if which == "Affine" else shape
    ss = draw(st.sampled_from(sub_shapes(shape))) if which == "Affine" else shape
    if which == "Affine" and draw(st.booleans()):
        (ls, ss) = (shape, ss) if draw(st.booleans()) else (ls, shape)
    full = np.broadcast_shapes(ls, ss)
    return {"kind": which, "loc": draw(arr(ls, fl())), "scale": draw(arr(ss, logu())), "x": draw(arr(full, fl(-100, 100))),
            "pscale": draw(st.sampled_from([0.0, 0.0, 0.5, 2.0])), "pseed": draw(st.integers(0, 999)),
            "neg": draw(st.booleans())}


def oracle_affine(c, ctx):
    loc, scale, x = (np.asarray(c[k], np.float64) for k in ("loc", "scale", "x"))
    k = c["kind"]
    if k == "Affine":
        obj = lib_call("C07|Affine|construct", B.Affine, jnp.asarray(loc), jnp.asarray(scale))
        ref = lambda l, s, v: s * v + l  # noqa: E731
    elif k == "Loc":
        obj = lib_call("C07|Loc|construct", B.Loc, jnp.asarray(loc))
        ref = lambda l, s, v: v + l  # noqa: E731
    else:
        obj = lib_call("C07|Scale|construct", B.Scale, jnp.asarray(scale))
        ref = lambda l, s, v: s * v  # noqa: E731
    if tuple(obj.shape) != x.shape:
        raise Violation(f"C07|{k}|shape", f"bijection shape {obj.shape} for loc {loc.shape} scale {scale.shape}")
    # (i) with the parameters the constructor was given
    y = lib_call(f"C07|{k}|transform", obj.transform, jnp.asarray(x))
    r = close(y, ref(loc, scale, x), f"{k}|constructor_args", f"loc={loc.tolist()} scale={scale.tolist()} x={x.tolist()}",
              rt=1e-11, scale=1 + np.abs(scale * x) + np.abs(loc))
    ctx.ratio(f"{k}", r)
    # (ii) with the parameters it holds after the raw arrays moved / were replaced (negative scale)
    if c["neg"] and k != "Loc":
        sgn = np.where(np.arange(x.size).reshape(x.shape) % 2 == 0, -1.0, 1.0)
        obj = eqx.tree_at(lambda a: a.scale, obj, jnp.asarray(sgn * np.broadcast_to(scale, x.shape)))
    obj = bd.perturb(obj, float(c["pscale"]), int(c["pseed"]))
    u = unwrap(obj)
    l2 = np.asarray(getattr(u, "loc", 0.0), np.float64)
    s2 = np.asarray(getattr(u, "scale", 1.0), np.float64)
    y = lib_call(f"C07|{k}|transform", obj.transform, jnp.asarray(x))
    close(y, ref(l2, s2, x), f"{k}|stored_params", f"loc={l2.tolist()} scale={s2.tolist()} x={x.tolist()}", rt=1e-11,
          scale=1 + np.abs(s2 * x) + np.abs(l2))
    if np.any(np.abs(scale - 1) > 0.1) and np.any(np.abs(loc) > 0.1) and not np.allclose(loc, scale):
        ctx.mark_nontrivial(c)


@st.composite
def tri_cases(draw):
    n = draw(st.integers(1, 5))
    A = np.asarray(draw(arr((n, n), fl(-3, 3))))
    d = np.asarray(draw(arr((n,), logu(1e-2, 1e2))))
    A[np.diag_indices(n)] = d
    return {"kind": "TriangularAffine", "A": A.tolist(), "loc": draw(arr(draw(st.sampled_from([(), (n,)])), fl())),
            "lower": draw(st.booleans()), "x": draw(arr((n,), fl())), "pscale": draw(st.sampled_from([0.0, 0.5, 2.0])),
            "pseed": draw(st.integers(0, 999))}


def oracle_tri(c, ctx):
    A, loc, x = (np.asarray(c[k], np.float64) for k in ("A", "loc", "x"))
    lower = bool(c["lower"])
    obj = lib_call("C07|TriangularAffine|construct", B.TriangularAffine, jnp.asarray(loc), jnp.asarray(A), lower=lower)
    T = np.tril(A) if lower else np.triu(A)
    y = lib_call("C07|TriangularAffine|transform", obj.transform, jnp.asarray(x))
    close(y, T @ x + loc, "TriangularAffine|constructor_args", f"A={A.tolist()} lower={lower} loc={loc.tolist()} x={x.tolist()}",
          rt=1e-11, scale=1 + np.abs(T) @ np.abs(x) + np.abs(loc))
    obj = bd.perturb(obj, float(c["pscale"]), int(c["pseed"]))
    u = unwrap(obj)
    T2 = np.asarray(u.triangular, np.float64)
    other = np.triu(T2, 1) if lower else np.tril(T2, -1)
    if np.any(other != 0):
        raise Violation("C07|TriangularAffine|not_triangular", f"matrix after parameter update {T2.tolist()} lower={lower}")
    y = lib_call("C07|TriangularAffine|transform", obj.transform, jnp.asarray(x))
    close(y, T2 @ x + np.asarray(u.loc), "TriangularAffine|stored_params", f"x={x.tolist()}", rt=1e-11,
          scale=1 + np.abs(T2) @ np.abs(x) + np.abs(np.asarray(u.loc)))
    if len(x) > 1 and np.any(np.abs(A - A.T) > 0.1):
        ctx.mark_nontrivial(c)


@st.composite
def elementwise_cases(draw):
    shape = draw(SHAPES)
    k = draw(st.sampled_from(["Exp", "SoftPlus", "Tanh", "LeakyTanh", "LeakyTanh", "Flip", "Identity"]))
    mv = draw(st.sampled_from([0.25, 0.5, 1.0, 2.0, 3.0, 3.5, 1, 3]))
    x = draw(arr(shape, st.one_of(fl(-6, 6), st.sampled_from([0.0, mv, -mv, float(np.nextafter(mv, 9)), float(np.nextafter(mv, 0)),
                                                               -float(np.nextafter(mv, 9)), 30.0, -30.0, 200.0, -200.0]))))
    return {"kind": k, "shape": list(shape), "max_val": mv, "x": x}


def oracle_elementwise(c, ctx):
    k, shape, x = c["kind"], tuple(c["shape"]), np.asarray(c["x"], np.float64)
    mv = c["max_val"]
    obj = {"Exp": lambda: B.Exp(shape), "SoftPlus": lambda: B.SoftPlus(shape), "Tanh": lambda: B.Tanh(shape),
           "LeakyTanh": lambda: B.LeakyTanh(mv, shape), "Flip": lambda: B.Flip(shape),
           "Identity": lambda: B.Identity(shape)}[k]()
    if k == "Exp":
        want = np.exp(x)
    elif k == "SoftPlus":
        want = softplus(x)
    elif k == "Tanh":
        want = np.tanh(x)
    elif k == "LeakyTanh":  # tanh inside +-max_val, its tangent line at +-max_val outside
        m = float(mv)
        lin = np.sign(x) * (math.tanh(m) + (1 - math.tanh(m) ** 2) * (np.abs(x) - m))
        want = np.where(np.abs(x) < m, np.tanh(x), lin)
    elif k == "Flip":
        want = x[tuple(slice(None, None, -1) for _ in shape)] if shape else x
    else:
        want = x
    y = lib_call(f"C07|{k}|transform", obj.transform, jnp.asarray(x))
    ctx.ratio(k, close(y, want, k, f"x={x.tolist()} max_val={mv}", rt=1e-12))
    if k == "LeakyTanh" and np.any(np.abs(x) >= mv) and float(mv) != 1.0:
        ctx.mark_nontrivial(c)
    elif k not in ("LeakyTanh", "Identity") and x.size > 0 and np.any(x != 0):
        ctx.mark_nontrivial(c)


@st.composite
def permute_cases(draw):
    shape = draw(st.sampled_from([(1,), (4,), (2, 3), (2, 2, 2), (3, 1, 2), ()]))
    n = int(np.prod(shape)) if shape else 1
    return {"kind": "Permute", "shape": list(shape), "perm": draw(st.permutations(list(range(n)))),
            "x": draw(arr(shape, fl()))}


def oracle_permute(c, ctx):
    shape = tuple(c["shape"])
    p = np.asarray(c["perm"], int).reshape(shape)
    x = np.asarray(c["x"], np.float64)
    obj = lib_call("C07|Permute|construct", B.Permute, jnp.asarray(p))
    y = np.asarray(lib_call("C07|Permute|transform", obj.transform, jnp.asarray(x)))
    want = x.reshape(-1)[p.reshape(-1)].reshape(shape)  # y.flat[i] = x.flat[p.flat[i]]
    if y.shape != want.shape or not np.array_equal(y, want):
        raise Violation("C07|Permute", f"perm={p.tolist()} x={x.tolist()} got {y.tolist()} reference {want.tolist()}")
    if not np.array_equal(p.reshape(-1), np.arange(p.size)) and not np.array_equal(p.reshape(-1)[p.reshape(-1)], np.arange(p.size)):
        ctx.mark_nontrivial(c)  # not an involution: forward and inverse permutation differ


@st.composite
def addcond_cases(draw):
    shape = draw(st.sampled_from([(), (3,), (2, 2)]))
    cond = draw(st.sampled_from([(), (2,), (2, 3)]))
    return {"kind": "AdditiveCondition", "shape": list(shape), "cond": list(cond), "seed": draw(st.integers(0, 999)),
            "module": draw(st.sampled_from(["tensor", "linear", "mlp", "closure"])), "x": draw(arr(shape, fl())),
            "c": draw(arr(cond, fl(-3, 3))), "pscale": draw(st.sampled_from([0.0, 0.5]))}


def oracle_addcond(c, ctx):
    shape, cond = tuple(c["shape"]), tuple(c["cond"])
    x, cc = np.asarray(c["x"], np.float64), np.asarray(c["c"], np.float64)
    if c["module"] == "closure":
        W = np.asarray(jr.normal(jr.PRNGKey(c["seed"]), shape + cond))
        f = lambda v: jnp.sin(jnp.tensordot(jnp.asarray(W), v, axes=len(cond)))  # noqa: E731
        obj = B.AdditiveCondition(f, shape, cond)
        fc = np.sin(np.tensordot(W, cc, axes=len(cond)))
    else:
        node = bd.build_leaf({"k": "AdditiveCondition", "shape": list(shape), "cond": list(cond), "seed": c["seed"],
                              "module": c["module"]}, float(c["pscale"]))
        obj = node.obj
        fc = np.asarray(obj.module(jnp.asarray(cc)))
    y = lib_call("C07|AdditiveCondition|transform", obj.transform, jnp.asarray(x), jnp.asarray(cc))
    close(y, x + fc, "AdditiveCondition", f"x={x.tolist()} c={cc.tolist()}")
    if np.any(np.abs(fc) > 1e-3):
        ctx.mark_nontrivial(c)


@st.composite
def planar_cases(draw):
    d = draw(st.integers(1, 4))
    return {"kind": "Planar", "dim": d, "params": draw(arr((2 * d + 1,), fl(-3, 3))), "x": draw(arr((d,), fl(-5, 5))),
            "negative_slope": draw(st.sampled_from([None, None, 0.1, 0.5, 1.0])), "cond_dim": draw(st.sampled_from([None, None, 2])),
            "c": draw(arr((2,), fl(-2, 2))), "seed": draw(st.integers(0, 99)), "hyper": draw(st.booleans())}


def oracle_planar(c, ctx):
    d, ns, x = int(c["dim"]), c["negative_slope"], np.asarray(c["x"], np.float64)
    cd = c["cond_dim"]
    obj = lib_call("C07|Planar|construct", B.Planar, jr.PRNGKey(c["seed"]), dim=d, cond_dim=cd, negative_slope=ns,
                   **({} if cd is None else dict(width_size=4, depth=1)))
    if cd is None:
        obj = eqx.tree_at(lambda p: p.params, obj, jnp.asarray(np.asarray(c["params"], np.float64)))
        params, cc = np.asarray(c["params"], np.float64), None
    else:
        obj = bd.perturb(obj, 1.0, c["seed"])
        cc = jnp.asarray(np.asarray(c["c"], np.float64))
        params = np.asarray(obj.conditioner(cc), np.float64)
    if cd is None and np.linalg.norm(params[:d]) < 1e-3:  # w == 0 exactly is outside the domain (u-hat is 0/0)
        params = params.copy()
        params[0] = 1.0
        obj = eqx.tree_at(lambda p: p.params, obj, jnp.asarray(params))
    w, u, b = params[:d], params[d:2 * d], params[-1]
    if c["hyper"] and abs(w[0]) > 1e-3:  # put x on the activation's kink w.x+b = 0
        x = x.copy()
        x[0] = -(b + w[1:] @ x[1:]) / w[0]
    uhat = np.asarray(obj.get_planar(cc).get_act_scale(), np.float64)  # its VALUE is C11's business
    z = w @ x + b
    act = np.tanh(z) if ns is None else np.where(z >= 0, z, ns * z)
    y = lib_call("C07|Planar|transform", obj.transform, jnp.asarray(x), cc)
    close(y, x + uhat * act, "Planar", f"w={w.tolist()} u={u.tolist()} b={b} x={x.tolist()} slope={ns}", rt=1e-11,
          scale=1 + np.abs(x) + np.abs(uhat * act))
    if np.linalg.norm(uhat * act) > 1e-3:
        ctx.mark_nontrivial(c)


# ---------------- rational quadratic spline ----------------------------------------------------
def rqs_ref(x, xk, yk, dk, a, b):
    """Eq. 4 of Durkan et al. (2019) through knots (xk, yk) with derivatives dk; identity outside [a, b]."""
    x = np.asarray(x, np.float64)
    out = np.array(x, copy=True)
    for idx in np.ndindex(x.shape):
        v = x[idx]
        if not (a <= v <= b):
            continue
        k = int(np.searchsorted(xk, v, side="right") - 1)
        k = min(max(k, 0), len(xk) - 2)
        w = xk[k + 1] - xk[k]
        xi = (v - xk[k]) / w
        s = (yk[k + 1] - yk[k]) / w
        num = (yk[k + 1] - yk[k]) * (s * xi**2 + dk[k] * xi * (1 - xi))
        den = s + (dk[k + 1] + dk[k] - 2 * s) * xi * (1 - xi)
        out[idx] = yk[k] + num / den
    return out


@st.composite
def rqs_cases(draw):
    knots = draw(st.integers(1, 8))
    iv = draw(st.sampled_from([1, 2, 4.5, [-1, 2], [-3, 0.5], [1, 3], [-4, -1], [0, 2], [-4, 5]]))
    return {"kind": "RQS", "knots": knots, "interval": iv, "min_derivative": draw(st.sampled_from([1e-3, 1e-2, 0.1])),
            "softmax_adjust": draw(st.sampled_from([1e-2, 1e-3, 0.5, 1, 3])), "pscale": draw(st.sampled_from([0.0, 0.3, 1.0, 2.0])),
            "pseed": draw(st.integers(0, 9999)), "u": draw(st.lists(st.floats(-0.3, 1.3), min_size=6, max_size=6)),
            "pick": draw(st.lists(st.integers(0, 60), min_size=4, max_size=4))}


def oracle_rqs(c, ctx):
    iv = tuple(c["interval"]) if isinstance(c["interval"], list) else c["interval"]
    obj = lib_call("C07|RQS|construct", B.RationalQuadraticSpline, knots=int(c["knots"]), interval=iv,
                   min_derivative=c["min_derivative"], softmax_adjust=c["softmax_adjust"])
    a, b = (float(iv[0]), float(iv[1])) if isinstance(iv, tuple) else (-float(iv), float(iv))
    if float(c["pscale"]) == 0.0:  # identity at initialisation
        g = np.linspace(a - 1, b + 1, 41)
        yg = np.asarray(jax.vmap(obj.transform)(jnp.asarray(g)))
        close(yg, g, "RQS|identity_at_init", f"interval={iv} knots={c['knots']}", rt=1e-12)
    obj = bd.perturb(obj, float(c["pscale"]), int(c["pseed"]))
    u = unwrap(obj)
    xk, yk, dk = (np.asarray(v, np.float64) for v in (u.x_pos, u.y_pos, u.derivatives))
    K = int(c["knots"])
    # the knots themselves, from the RAW parameters and the constructor arguments (documented formula):
    # widths = (softmax(raw) + adj/K)/(1 + adj), first width halved, cumulative, padded with the interval ends
    def doc_pos(raw):
        e = np.exp(raw - np.max(raw))
        wdt = (e / e.sum() + float(c["softmax_adjust"]) / K) / (1 + float(c["softmax_adjust"]))
        wdt[0] = wdt[0] / 2
        return np.concatenate([[a], a + (b - a) * np.cumsum(wdt), [b]])
    try:
        raws = [np.asarray(getattr(obj, nm).args[0], np.float64) for nm in ("x_pos", "y_pos")]
        raw_d = np.asarray(obj.derivatives.args[0], np.float64)
    except Exception:  # noqa: BLE001  (parameterisation refactored: fall back to what unwrap reports)
        raws, raw_d = None, None
    if raws is not None:
        for nm, raw, got in (("x_pos", raws[0], xk), ("y_pos", raws[1], yk)):
            close(got, doc_pos(raw), f"RQS|knot_positions_vs_documented_formula.{nm}",
                  f"softmax_adjust={c['softmax_adjust']} knots={K} interval={iv}", rt=1e-10, scale=1 + np.abs(got))
        close(dk, softplus(raw_d) + float(c["min_derivative"]), "RQS|knot_derivatives_vs_documented_formula",
              f"min_derivative={c['min_derivative']}", rt=1e-10, scale=1 + np.abs(dk))
    if len(xk) != K + 2 or len(dk) != K + 2:
        raise Violation("C07|RQS|knot_count", f"{len(xk)} positions for knots={K}")
    pts = [a + t * (b - a) for t in c["u"]] + [a, b, a - 0.5, b + 0.5, a - 1e3, b + 1e3]
    pool = list(xk) + [float(np.nextafter(v, 1e9)) for v in xk] + [float(np.nextafter(v, -1e9)) for v in xk]
    pts += [pool[p % len(pool)] for p in c["pick"]]
    pts = np.asarray(pts, np.float64)
    y = np.asarray(jax.vmap(obj.transform)(jnp.asarray(pts)))
    want = rqs_ref(pts, xk, yk, dk, a, b)
    ctx.ratio("RQS", close(y, want, "RQS|interpolant", f"interval={iv} knots={K} pts={pts.tolist()}", rt=1e-10,
                           scale=1 + np.abs(want)))
    # what "through its knots" means
    yk_got = np.asarray(jax.vmap(obj.transform)(jnp.asarray(xk)))
    close(yk_got, yk, "RQS|passes_through_knots", f"x_pos={xk.tolist()}", rt=1e-11, scale=1 + np.abs(yk))
    d_in = np.asarray(jax.vmap(jax.grad(obj.transform))(jnp.asarray(xk[1:-1])))  # interior knots are C1
    close(d_in, dk[1:-1], "RQS|derivative_at_knots", f"x_pos={xk.tolist()}", rt=1e-7, scale=1 + np.abs(dk[1:-1]))
    g = np.linspace(a, b, 200)
    yg = np.asarray(jax.vmap(obj.transform)(jnp.asarray(g)))
    if not np.all(np.diff(yg) > 0):
        raise Violation("C07|RQS|monotone", f"not strictly increasing on a 200-point grid, interval={iv}")
    out = np.asarray([a - 1e-9 - 0.3, b + 0.7, a - 50.0, b + 1e4])
    yo = np.asarray(jax.vmap(obj.transform)(jnp.asarray(out)))
    if not np.array_equal(yo, out):
        raise Violation("C07|RQS|identity_outside", f"{out.tolist()} -> {yo.tolist()}")
    if float(c["pscale"]) > 0:
        ctx.mark_nontrivial(c)


ORACLES = {"Affine": oracle_affine, "Loc": oracle_affine, "Scale": oracle_affine, "TriangularAffine": oracle_tri,
           "Exp": oracle_elementwise, "SoftPlus": oracle_elementwise, "Tanh": oracle_elementwise,
           "LeakyTanh": oracle_elementwise, "Flip": oracle_elementwise, "Identity": oracle_elementwise,
           "Permute": oracle_permute, "AdditiveCondition": oracle_addcond, "Planar": oracle_planar, "RQS": oracle_rqs}


def oracle(c, ctx):
    ctx.evaluated()
    ORACLES[c["kind"]](c, ctx)
    ctx.hist("kind", c["kind"])
    if ctx.evaluations % 53 == 1:
        ctx.sample(c)


def replay(spec, ctx):
    oracle(spec.get("spec", spec) if "kind" not in spec else spec, ctx)


def run(ctx):
    q = ctx.tier == "quick"
    m = 1 if q else 10
    for name, strat, n in [("affine", affine_cases(), 60), ("tri", tri_cases(), 30), ("elementwise", elementwise_cases(), 60),
                           ("permute", permute_cases(), 30), ("addcond", addcond_cases(), 20), ("planar", planar_cases(), 30),
                           ("rqs", rqs_cases(), 40)]:
        run_hypothesis(ctx, strat, oracle, n * m, f"C07-{name}")
