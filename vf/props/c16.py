"""C16 - training loops stop and select parameters as documented.

Drives fit_to_data / fit_to_variational_target through their public extension points only:
a scripted ``loss_fn`` whose value is a function of an update counter stored in the model,
and a counting optax optimiser (+1 per update).  The returned model's counter identifies the
update count of the parameters that were returned.  Oracle = pure-Python restatement of the
property (model_data / model_vi below)."""
import itertools

import equinox as eqx
import jax
import jax.numpy as jnp
import jax.random as jr
import numpy as np
import optax
from hypothesis import strategies as st

from flowjax.train import fit_to_data, fit_to_variational_target
from vf.core import Violation, lib_call, run_hypothesis, shard

LMAX = 24  # padded script length (fixed so `step` compiles once per worker)


class Scripted(eqx.Module):
    c: jax.Array  # float scalar: number of optimiser updates applied (trainable leaf)
    bits: jax.Array  # int64[LMAX]: float64 bit patterns of the scripted losses (static leaf)
    nb: jax.Array  # int: train batches per epoch (1 for the variational loop)


def _value(model):
    script = jax.lax.bitcast_convert_type(model.bits, jnp.float64)
    return script, jnp.round(model.c).astype(jnp.int64)


def data_loss(params, static, x, condition=None, key=None):
    m = eqx.combine(params, static)
    script, c = _value(m)
    # validation call of epoch e sees c == (e+1)*nb ; train calls read a neighbouring entry
    idx = jnp.clip(c // m.nb - 1, 0, LMAX - 1)
    return script[idx] + 0.0 * m.c


def vi_loss(params, static, key):
    m = eqx.combine(params, static)
    script, c = _value(m)
    return script[jnp.clip(c, 0, LMAX - 1)] + 0.0 * m.c


def _count_update(grads, state, params=None):
    return jax.tree_util.tree_map(lambda g: jnp.ones_like(g), grads), state


COUNTING = optax.GradientTransformation(lambda params: (), _count_update)


def make_model(script, nb):
    pad = list(script) + [0.0] * (LMAX - len(script))
    bits = np.asarray(pad, dtype=np.float64).view(np.int64)
    return Scripted(jnp.zeros(()), jnp.asarray(bits), jnp.asarray(nb))


# ---------------- reference models (from the property statement) ----------------
def model_data(script, max_epochs, max_patience, return_best, nb):
    vals = []
    for e in range(max_epochs):
        vals.append(script[e])
        best = min(range(len(vals)), key=lambda i: (vals[i], i))
        if e - best > max_patience:
            break
    run = len(vals)
    if run == 0:
        return 0, 0
    best = min(range(run), key=lambda i: (vals[i], i))
    return run, ((best + 1) * nb if return_best else run * nb)


def model_vi(script, steps, return_best):
    if steps == 0:
        return 0
    best = min(range(steps), key=lambda i: (script[i], i))
    return best if return_best else steps


# data layouts giving nb train batches and >=1 validation batch: (n, val_prop, batch_size)
LAYOUTS = {1: (4, 0.25, 3), 2: (10, 0.2, 4), 3: (11, 0.2, 3)}


def oracle(spec, ctx):
    script = [float(v) for v in spec["script"]]
    rb = bool(spec["return_best"])
    ctx.evaluated()
    if spec["loop"] == "data":
        nb = int(spec.get("nb", 1))
        n, vp, bs = LAYOUTS[nb]
        me, mp = int(spec["max_epochs"]), int(spec["max_patience"])
        assert me <= len(script)
        x = jnp.arange(float(n))[:, None]
        out, losses = lib_call(
            "C16|fit_to_data", fit_to_data, jr.PRNGKey(int(spec.get("key", 0))), make_model(script, nb), x,
            loss_fn=data_loss, max_epochs=me, max_patience=mp, batch_size=bs, val_prop=vp,
            optimizer=COUNTING, return_best=rb, show_progress=False)
        run, cnt = model_data(script, me, mp, rb, nb)
        tr, va = [float(v) for v in losses["train"]], [float(v) for v in losses["val"]]
        if len(va) != run or len(tr) != run:
            raise Violation("C16|fit_to_data|epochs_run",
                            f"ran {len(va)} val / {len(tr)} train epochs, expected {run}; spec={spec}")
        if va != script[:run]:
            raise Violation("C16|fit_to_data|val_losses", f"recorded {va} expected {script[:run]}")
        got = int(round(float(out.c)))
        if got != cnt:
            raise Violation(f"C16|fit_to_data|returned_params|return_best={rb}",
                            f"returned parameters after {got} updates, expected {cnt}; spec={spec}")
        amin = int(np.argmin(script[:run])) if run else 0
        if run >= 3 and 0 < amin < run - 1 and run < me:
            ctx.mark_nontrivial(spec)
        ctx.hist("data_epochs_run", run)
    else:
        steps = int(spec["steps"])
        assert steps <= len(script)
        out, losses = lib_call(
            "C16|fit_to_variational_target", fit_to_variational_target, jr.PRNGKey(int(spec.get("key", 0))),
            make_model(script, 1), vi_loss, steps=steps, optimizer=COUNTING, return_best=rb, show_progress=False)
        ls = [float(v) for v in losses]
        if ls != script[:steps]:
            raise Violation("C16|vi|losses", f"recorded {ls}, expected {script[:steps]} (exactly `steps` entries)")
        got = int(round(float(out.c)))
        cnt = model_vi(script, steps, rb)
        if got != cnt:
            raise Violation(f"C16|vi|returned_params|return_best={rb}",
                            f"returned parameters after {got} updates, expected {cnt}; spec={spec}")
        amin = int(np.argmin(script[:steps])) if steps else 0
        if steps >= 3 and 0 < amin < steps - 1:
            ctx.mark_nontrivial(spec)
        ctx.hist("vi_steps", steps)
    if not np.array_equal(np.asarray(out.bits), np.asarray(make_model(script, 1).bits)):
        raise Violation("C16|static_leaf_changed", "integer leaf of the model changed during training")
    if ctx.evaluations % 97 == 1:
        ctx.sample(spec)


def replay(spec, ctx):
    oracle(spec.get("spec", spec), ctx)


def enumerate_cases(L_max):
    for L in range(1, L_max + 1):
        off = (L + 1) // 2
        for perm in itertools.permutations(range(1, L + 1)):
            script = [p - off + 0.5 for p in perm]  # both signs, distinct
            for rb in (True, False):
                for me in range(0, L + 1):
                    for mp in range(0, L + 1):
                        yield {"loop": "data", "script": script, "max_epochs": me, "max_patience": mp,
                               "return_best": rb, "nb": 1}
                for steps in range(0, L + 1):
                    yield {"loop": "vi", "script": script, "steps": steps, "return_best": rb}


@st.composite
def random_case(draw):
    L = draw(st.integers(1, 20))
    vals = draw(st.lists(st.floats(-1e6, 1e6, allow_nan=False, allow_subnormal=False), min_size=L, max_size=L,
                         unique=True))
    rb = draw(st.booleans())
    if draw(st.booleans()):
        return {"loop": "data", "script": vals, "max_epochs": draw(st.integers(0, L)),
                "max_patience": draw(st.integers(0, L)), "return_best": rb, "nb": draw(st.sampled_from([1, 2, 3])),
                "key": draw(st.integers(0, 5))}
    return {"loop": "vi", "script": vals, "steps": draw(st.integers(0, L)), "return_best": rb,
            "key": draw(st.integers(0, 5))}


def run(ctx):
    L = 5 if ctx.tier == "quick" else 7
    n = 0
    for spec in shard(enumerate_cases(L), ctx):
        try:
            oracle(spec, ctx)
        except Violation as v:
            ctx.fail(v.signature, spec, v.detail)
        n += 1
    ctx.exhaustive[f"permutations_L<={L}"] = n
    run_hypothesis(ctx, random_case(), oracle, max_examples=(40 if ctx.tier == "quick" else 400), label="C16-random")
