"""C14 - methods are pure and transparent to jit, vmap and serialisation.

For every subject (leaf, expression tree, flow bijection, distribution): the JIT path is exercised
FIRST (hidden state poisoned by a first traced call would otherwise go unnoticed), then compared with
eager; the compiled function is re-used on a second model with the same structure and different
parameters (stale constants); vmap == python loop; repeated calls bit-identical; flatten/unflatten and
leaf (de)serialisation into a freshly built model reproduce outputs bit-identically; no array sits in
a static field."""
import dataclasses
import io

import equinox as eqx
import jax
import jax.numpy as jnp
import jax.random as jr
import numpy as np
from hypothesis import strategies as st

from flowjax import bijections as B
from flowjax import distributions as D
from vf import bijcase as bc
from vf import build as bd
from vf import gen
from vf.core import Violation, lib_call, run_hypothesis

TOL = 1e-9
METHODS = ("transform", "transform_and_log_det", "inverse", "inverse_and_log_det")


def flat(out):
    return [np.asarray(o, np.float64) for o in (out if isinstance(out, tuple) else (out,))]


def near(a, b, tol):
    for u, v in zip(flat(a), flat(b)):
        if u.shape != v.shape:
            return False
        fin = np.isfinite(u) & np.isfinite(v)
        if not np.array_equal(np.isfinite(u), np.isfinite(v)):
            return False
        if np.any(np.abs(u[fin] - v[fin]) > tol * (1 + np.abs(v[fin]))):
            return False
    return True


def same_bits(a, b):
    return all(u.shape == v.shape and u.tobytes() == v.tobytes() for u, v in zip(flat(a), flat(b)))


@eqx.filter_jit
def _jit_call(obj, name, x, c):
    return getattr(obj, name)(x, c)


def static_audit(obj, who):
    def visit(m):
        if dataclasses.is_dataclass(m) and isinstance(m, eqx.Module):
            for f in dataclasses.fields(m):
                try:
                    v = getattr(m, f.name)
                except AttributeError:
                    continue
                if f.metadata.get("static", False):
                    for leaf in jax.tree_util.tree_leaves(v):
                        if isinstance(leaf, (jax.Array, np.ndarray)):
                            raise Violation(f"C14|{who}|array_in_static_field", f"{type(m).__name__}.{f.name}")
                visit(v)
        elif isinstance(m, (list, tuple)):
            for e in m:
                visit(e)
        elif isinstance(m, dict):
            for e in m.values():
                visit(e)
    visit(obj)


def usable(obj, m, x, c):
    try:
        getattr(obj, m)
    except AttributeError:
        return False
    return True


def check_bijection(case, ctx):
    # no boundary-directed picks here: exactly ON a derivative kink (spline interval end) one ulp of XLA-fusion
    # rounding legitimately puts jit and eager on different sides (either one-sided log-det is acceptable, cf. C02)
    case = dict(case, inp=dict(case["inp"], xpick=[-1] * len(case["inp"]["xpick"])))
    s = bc.prepare(case)
    # ... and no "round" inputs either (Hypothesis draws 2.0, -1.0, ... which are spline interval ends): shift by an odd amount
    s.x = bd.to_domain(np.asarray(s.x) + 0.0013719, s.dom) if s.dom is not None else np.asarray(s.x) + 0.0013719
    obj, x, cj = s.obj, jnp.asarray(s.x), s.cj
    who = f"{s.kind}|{s.name}"
    case2 = dict(case, pscale=max(float(case.get("pscale", 0.3)), 0.2))
    if case["kind"] == "flow":
        case2 = dict(case, spec=dict(case["spec"], pseed=int(case["spec"].get("pseed", 0)) + 1,
                                    pscale=max(float(case["spec"].get("pscale", 0.0)), 0.2)))
    else:
        case2 = dict(case2, spec=bd._reseed(case["spec"], 3))
    s2 = bc.prepare(case2)
    static_audit(obj, who)
    methods = list(METHODS)
    if getattr(s, "fwd_only_dir", None) == "inverse":
        methods = methods[2:]
    elif getattr(s, "fwd_only_dir", None) == "transform" or not s.invertible:
        methods = methods[:2]
    # conditioning guard: a map that (de)magnifies by more than e^12 per element is rounding-dominated
    tol = TOL * (1e4 if s.numinv else 1)
    # y for the inverse direction: image of x (computed under jit first as well)
    y = x
    if "transform" in methods:
        y = lib_call(f"C14|{who}|jit|transform", eqx.filter_jit(obj.transform), x, cj)
    elif "inverse" in methods:
        y = x
    if not np.all(np.isfinite(np.asarray(y))):
        ctx.inconcl("nonfinite")
        return False
    methods = sorted(methods, key=lambda m: (not m.endswith("log_det"), m))
    for m in methods:
        arg = x if m.startswith("transform") else y
        # 1. jit FIRST (bound-method form, as users write it), then eager, then jit again
        j1 = lib_call(f"C14|{who}|jit|{m}", eqx.filter_jit(getattr(obj, m)), arg, cj)
        e1 = lib_call(f"C14|{who}|eager|{m}", getattr(obj, m), arg, cj)
        j2 = lib_call(f"C14|{who}|jit_again|{m}", eqx.filter_jit(getattr(obj, m)), arg, cj)
        if not all(np.all(np.isfinite(v)) for v in flat(e1)):
            ctx.inconcl("nonfinite")
            continue
        if m.endswith("log_det") and (abs(float(flat(e1)[1])) / max(1, np.asarray(arg).size) > 12.0 or abs(float(flat(e1)[1])) > 15.0):
            ctx.inconcl("ill_conditioned")  # volume change beyond e^15 (or e^12 per element): rounding-dominated (cf. C08, C03)
            return False
        if not near(j1, e1, tol) or not near(j2, e1, tol):
            raise Violation(f"C14|{who}|jit_vs_eager|{m}", f"jit {[v.tolist() for v in flat(j1)]} eager {[v.tolist() for v in flat(e1)]}")
        # 2. repeated calls bit-identical
        e2 = getattr(obj, m)(arg, cj)
        if not same_bits(e1, e2) or not same_bits(j1, j2):
            raise Violation(f"C14|{who}|repeated_call_differs|{m}", "same arguments, different result")
        # 3. compiled function re-used on a second model of the same structure (no stale constants)
        if jax.tree_util.tree_structure(s2.obj) == jax.tree_util.tree_structure(obj) and np.shape(s2.x) == np.shape(s.x):
            a1 = lib_call(f"C14|{who}|jit_shared|{m}", _jit_call, obj, m, arg, cj)
            arg2 = jnp.asarray(s2.x) if m.startswith("transform") else s2.obj.transform(jnp.asarray(s2.x), s2.cj) if "transform" in methods else jnp.asarray(s2.x)
            if np.all(np.isfinite(np.asarray(arg2))):
                a2 = lib_call(f"C14|{who}|jit_shared|{m}", _jit_call, s2.obj, m, arg2, s2.cj)
                b2 = getattr(s2.obj, m)(arg2, s2.cj)
                if all(np.all(np.isfinite(v)) for v in flat(b2)) and (not near(a2, b2, tol) or not near(a1, e1, tol)):
                    raise Violation(f"C14|{who}|stale_constant_under_jit|{m}", "second model of the same structure gives "
                                                                                 "a different result under the shared compiled function")
        # 4. vmap over inputs (and conditions) == python loop
        xs = jnp.stack([arg, arg * 1.0, arg]) if m.startswith("inverse") else jnp.stack([arg, arg * 0.5 + 0.1 * jnp.sign(arg), arg])
        if m.startswith("transform") and s.dom is not None:
            xs = jnp.asarray(np.stack([bd.to_domain(np.asarray(r), s.dom) for r in np.asarray(xs)]))
        if cj is None:
            v = lib_call(f"C14|{who}|vmap|{m}", jax.vmap(lambda a: getattr(obj, m)(a, None)), xs)
            loop = [getattr(obj, m)(xs[i], None) for i in range(3)]
        else:
            cs = jnp.stack([cj, cj * 0.5, cj + 0.25])
            v = lib_call(f"C14|{who}|vmap|{m}", jax.vmap(lambda a, b: getattr(obj, m)(a, b)), xs, cs)
            loop = [getattr(obj, m)(xs[i], cs[i]) for i in range(3)]
        for i in range(3):
            vi = tuple(o[i] for o in v) if isinstance(v, tuple) else v[i]
            if all(np.all(np.isfinite(u)) for u in flat(loop[i])) and not near(vi, loop[i], tol):
                raise Violation(f"C14|{who}|vmap_vs_loop|{m}", f"element {i}")
    # 5. flatten / unflatten
    leaves, td = jax.tree_util.tree_flatten(obj)
    obj_b = jax.tree_util.tree_unflatten(td, leaves)
    m0 = [m for m in methods if not m.endswith("log_det")][0]
    a0 = x if m0.startswith("transform") else y
    ref = getattr(obj, m0)(a0, cj)
    if not same_bits(getattr(obj_b, m0)(a0, cj), ref):
        raise Violation(f"C14|{who}|flatten_unflatten", "behaviour changed")
    # 6. leaf serialisation into a freshly constructed model with different parameters
    if jax.tree_util.tree_structure(s2.obj) == jax.tree_util.tree_structure(obj):
        buf = io.BytesIO()
        eqx.tree_serialise_leaves(buf, obj)
        buf.seek(0)
        try:
            obj_c = eqx.tree_deserialise_leaves(buf, s2.obj)
        except Exception as e:  # noqa: BLE001
            raise Violation(f"C14|{who}|deserialise", f"{type(e).__name__}: {str(e)[:200]}")
        if not same_bits(getattr(obj_c, m0)(a0, cj), ref):
            raise Violation(f"C14|{who}|serialisation_roundtrip", "deserialised model behaves differently")
        ctx.hist("serialised", s.kind)
    ctx.hist(f"{s.kind}_kind", s.name)
    return float(case.get("pscale", case.get("spec", {}).get("pscale", 0.0)) or 0.0) > 0


def make_dist(c, seed_shift=0):
    k = c["dist"]
    n = int(c["dim"])
    sd = int(c["seed"]) + seed_shift
    if k in bd.FACTORIES:
        return bd.build_flow({"factory": k, "dim": n, "cond_dim": c.get("cond"), "invert": bool(c["invert"]), "layers": 2, "key": sd,
                              "pscale": float(c["pscale"]) + (0.1 if seed_shift else 0), "pseed": sd, "negative_slope": 0.5, "tight": False})
    one = jnp.ones(n)
    loc = jr.normal(jr.PRNGKey(sd), (n,))
    d = {"Normal": lambda: D.Normal(loc, one * 1.5), "LogNormal": lambda: D.LogNormal(loc * 0.3, one * 0.7),
         "Uniform": lambda: D.Uniform(loc - 2, loc + 3), "Gumbel": lambda: D.Gumbel(loc, one * 2),
         "Cauchy": lambda: D.Cauchy(loc, one), "StudentT": lambda: D.StudentT(one * 4, loc, one * 1.2),
         "Laplace": lambda: D.Laplace(loc, one * 0.8), "Exponential": lambda: D.Exponential(one * 1.3 + jnp.abs(loc)),
         "Logistic": lambda: D.Logistic(loc, one * 1.1), "MVN": lambda: D.MultivariateNormal(loc, jnp.eye(n) * 2 + 0.3),
         "Mixture": lambda: D.VmapMixture(eqx.filter_vmap(lambda m: D.Normal(m * one + loc, one))(jnp.arange(3.0)), jnp.asarray([1.0, 2.0, 0.5]))}[k]()
    return bd.perturb(d, float(c["pscale"]) * 0.3, sd)


def _train(d, c, shift=0):
    """Two epochs of fit_to_data with return_best=True: the model a user actually jits / serialises afterwards."""
    from flowjax.train import fit_to_data
    import optax
    if d.cond_shape is not None or c["dist"] in ("block_neural_autoregressive_flow",) and not c["invert"]:
        return d
    x = d.sample(jr.PRNGKey(int(c["seed"]) + 11 + shift), (16,))
    out, _ = fit_to_data(jr.PRNGKey(int(c["seed"]) + 12 + shift), d, x, max_epochs=2, batch_size=6, val_prop=0.25,
                         optimizer=optax.sgd(1e-3), show_progress=False, return_best=True)
    return out


def check_dist(c, ctx):
    d = make_dist(c)
    d2 = make_dist(c, 1)
    if c.get("trained"):
        d, d2 = lib_call("C14|dist|fit_to_data", _train, d, c), lib_call("C14|dist|fit_to_data", _train, d2, c, 1)
        ctx.hist("trained_dist", c["dist"])
    who = f"dist|{c['dist']}"
    static_audit(d, who)
    cond = d.cond_shape
    cj = None if cond is None else jnp.asarray(bd.make_cond(c["craw"], cond))
    key = jr.PRNGKey(int(c["key"]))
    tol = TOL * (1e4 if c["dist"] == "block_neural_autoregressive_flow" else 1)
    # jit first
    js = lib_call(f"C14|{who}|jit|sample", eqx.filter_jit(d.sample), key, (3,), cj)
    es = lib_call(f"C14|{who}|eager|sample", d.sample, key, (3,), cj)
    if not near(js, es, tol):
        raise Violation(f"C14|{who}|jit_vs_eager|sample", f"{np.asarray(js).tolist()} vs {np.asarray(es).tolist()}")
    if not same_bits(d.sample(key, (3,), cj), es):
        raise Violation(f"C14|{who}|repeated_call_differs|sample", "same key, different samples")
    x = es
    jl = lib_call(f"C14|{who}|jit|log_prob", eqx.filter_jit(d.log_prob), x, cj)
    el = lib_call(f"C14|{who}|eager|log_prob", d.log_prob, x, cj)
    if not near(jl, el, tol):
        raise Violation(f"C14|{who}|jit_vs_eager|log_prob", f"{np.asarray(jl).tolist()} vs {np.asarray(el).tolist()}")
    jb = lib_call(f"C14|{who}|jit|sample_and_log_prob", eqx.filter_jit(d.sample_and_log_prob), key, (3,), cj)
    eb = lib_call(f"C14|{who}|eager|sample_and_log_prob", d.sample_and_log_prob, key, (3,), cj)
    if not near(jb, eb, tol):
        raise Violation(f"C14|{who}|jit_vs_eager|sample_and_log_prob", "differs")
    vl = lib_call(f"C14|{who}|vmap|log_prob", jax.vmap(lambda a: d.log_prob(a, cj)), x)
    if not near(vl, el, tol):
        raise Violation(f"C14|{who}|vmap_vs_loop|log_prob", "differs")
    if jax.tree_util.tree_structure(d2) == jax.tree_util.tree_structure(d):
        buf = io.BytesIO()
        eqx.tree_serialise_leaves(buf, d)
        buf.seek(0)
        d3 = eqx.tree_deserialise_leaves(buf, d2)
        if not same_bits(d3.log_prob(x, cj), el) or not same_bits(d3.sample(key, (3,), cj), es):
            raise Violation(f"C14|{who}|serialisation_roundtrip", "deserialised distribution behaves differently")
    leaves, td = jax.tree_util.tree_flatten(d)
    if not same_bits(jax.tree_util.tree_unflatten(td, leaves).log_prob(x, cj), el):
        raise Violation(f"C14|{who}|flatten_unflatten", "behaviour changed")
    ctx.hist("dist", c["dist"])
    return True


# ---------------------------------------------------------------------------------------------------
# sibling histories: two models of the SAME architecture that differ only in construction-time values are traced one
# after the other in one process; each must still equal its own eager result (a jit cache keyed on too little - e.g. a
# hashable helper object comparing structure but not values - silently runs model B with model A's constants)
# ---------------------------------------------------------------------------------------------------
def _sibling(kind, v, seed):
    key = jr.PRNGKey(int(seed))
    loc, scale = float(v[0]), float(abs(v[1]) + 0.2)
    tr = B.Affine(jnp.asarray(loc), jnp.asarray(scale))
    if kind == "Coupling":
        return B.Coupling(key, transformer=tr, untransformed_dim=1, dim=3, nn_width=4, nn_depth=1), "bij"
    if kind == "MaskedAutoregressive":
        return B.MaskedAutoregressive(key, transformer=tr, dim=3, nn_width=4, nn_depth=1), "bij"
    if kind in ("coupling_flow", "masked_autoregressive_flow"):
        from flowjax import flows
        return getattr(flows, kind)(key, base_dist=D.StandardNormal((2,)), transformer=tr, flow_layers=2, nn_width=4), "dist"
    if kind == "LeakyTanh":
        return B.LeakyTanh(0.5 + abs(loc)), "bij0"
    if kind == "RQS":
        return B.RationalQuadraticSpline(knots=3, interval=(-1.0 - abs(loc), 1.0 + scale)), "bij0"
    if kind == "Planar":
        return B.Planar(key, dim=3, negative_slope=0.1 + 0.8 * scale / (1 + scale)), "bij"
    if kind == "Scale":
        return B.Scale(jnp.full((3,), scale)), "bij"
    raise ValueError(kind)


def check_siblings(c, ctx):
    kind = c["sib"]
    models = [_sibling(kind, v, c["seed"]) for v in c["vals"]]
    who = f"siblings|{kind}"
    mode = models[0][1]
    xs = np.asarray(c["x"], np.float64)
    key = jr.PRNGKey(int(c["key"]))
    order = [int(i) % len(models) for i in c["order"]]
    for step, i in enumerate(order):  # the HISTORY: which model is traced when
        m = models[i][0]
        if mode == "dist":
            x = jnp.asarray(xs[:2])
            calls = [("log_prob", lambda f: f(m.log_prob)(x), ), ("sample", lambda f: f(m.sample)(key, (2,)))]
        else:
            x = jnp.asarray(xs[:3] if mode == "bij" else xs[0])
            calls = [(n, (lambda n_: lambda f: f(getattr(m, n_))(x))(n)) for n in ("transform", "transform_and_log_det", "inverse")]
            calls.append(("shared_jit.transform", lambda f: (_jit_call(m, "transform", x, None) if f is not _ident else m.transform(x))))
        for name, call in calls:
            j = lib_call(f"C14|{who}|jit|{name}", call, eqx.filter_jit)
            e = lib_call(f"C14|{who}|eager|{name}", call, _ident)
            if not near(j, e, TOL):
                raise Violation(f"C14|{who}|jit_vs_eager_after_sibling|{name}",
                                f"step {step} of order {order}: model {i} (constructor values {c['vals'][i]}) gives "
                                f"{[np.asarray(t).tolist() for t in flat(j)]} under jit but {[np.asarray(t).tolist() for t in flat(e)]} eagerly")
    ctx.hist("sibling_kind", kind)
    return len(set(order)) > 1


def _ident(f):
    return f


@st.composite
def sibling_cases(draw):
    n = draw(st.integers(2, 3))
    return {"sib": draw(st.sampled_from(["Coupling", "MaskedAutoregressive", "coupling_flow", "masked_autoregressive_flow", "LeakyTanh",
                                         "RQS", "Planar", "Scale"])),
            "vals": [[draw(st.floats(-2, 2)), draw(st.floats(-2, 2))] for _ in range(n)],
            "order": draw(st.lists(st.integers(0, 2), min_size=2, max_size=4)), "seed": draw(st.integers(0, 99)),
            "x": draw(st.lists(st.floats(-1.5, 1.5), min_size=3, max_size=3)), "key": draw(st.integers(0, 10**6))}


def oracle(case, ctx):
    ctx.evaluated()
    if ctx.evaluations % 6 == 0:  # every case compiles ~20 executables: release their memory maps often (DESIGN F4)
        from vf.core import clear_jax_caches
        clear_jax_caches()
    nt = check_siblings(case, ctx) if "sib" in case else (check_dist(case, ctx) if "dist" in case else check_bijection(case, ctx))
    if nt:
        ctx.mark_nontrivial(case)
    if ctx.evaluations % 23 == 1:
        ctx.sample(case)


def replay(spec, ctx):
    oracle(spec.get("spec", spec) if ("kind" not in spec and "dist" not in spec and "sib" not in spec) else spec, ctx)


@st.composite
def dist_cases(draw):
    k = draw(st.sampled_from(["Normal", "LogNormal", "Uniform", "Gumbel", "Cauchy", "StudentT", "Laplace", "Exponential", "Logistic",
                              "MVN", "Mixture"] + bd.FACTORIES))
    return {"dist": k, "dim": draw(st.integers(2, 3)), "cond": draw(st.sampled_from([None, 2])) if k in bd.FACTORIES else None,
            "invert": draw(st.booleans()), "seed": draw(st.integers(0, 999)), "key": draw(st.integers(0, 10**6)),
            "pscale": draw(st.sampled_from([0.0, 0.3])), "craw": draw(st.lists(st.floats(-2, 2), min_size=4, max_size=4)),
            "trained": draw(st.booleans())}


def partial_index_sweep():
    """Every index KIND Partial documents (int, negative int, slices with steps, int array, bool mask, full-rank mask,
    tuples with ints / slices / ellipsis / a mask inside the tuple): each must trace (jit) and vmap like any other bijection."""
    inp = {"xraw": [0.3, -1.1, 0.7, 1.9, -0.4, 0.05, 2.2, -0.9], "xpick": [-1] * 8, "craw": [0.4, -0.6, 1.1, 0.2, -1.3, 0.9, 0.1, -0.2],
           "sigma": 1.0}
    S = lambda a, b, c: {"t": "slice", "v": [a, b, c]}  # noqa: E731
    I = lambda v: {"t": "int", "v": v}  # noqa: E731
    M = lambda v: {"t": "barr", "v": v}  # noqa: E731
    T = lambda *v: {"t": "tuple", "v": list(v)}  # noqa: E731
    idxs = [((4,), I(1)), ((4,), I(-1)), ((4,), S(1, 3, None)), ((4,), S(0, 4, 2)), ((4,), S(None, None, -1)),
            ((4,), {"t": "iarr", "v": [2, 0]}), ((4,), M([True, False, True, False])),
            ((3, 2), M([[True, False], [False, False], [True, True]])), ((3, 2), T(S(0, 3, None), I(1))), ((3, 2), T(I(0), I(-1))),
            ((3, 2), T({"t": "ellipsis"}, I(0))), ((3, 2), T(S(0, 3, None), M([False, True]))), ((3, 2), T(I(2), M([True, True]))),
            ((3, 2), T(M([True, False, True]), I(0))), ((3, 2), T(M([True, False, True]), S(0, 2, None)))]
    for sh, idx in idxs:
        sel = np.zeros(sh)[bd.py_index(idx)]
        yield {"kind": "tree", "spec": {"k": "Partial", "shape": list(sh), "idx": idx,
                                        "child": {"k": "Affine", "shape": list(np.shape(sel)), "seed": 7}},
               "pscale": 0.3, "inp": inp}


def run(ctx):
    q = ctx.tier == "quick"
    from vf.core import shard
    n = 0
    for c in shard(partial_index_sweep(), ctx):
        try:
            oracle(c, ctx)
        except Violation as v:
            ctx.fail(v.signature, c, v.detail)
        n += 1
    ctx.exhaustive["partial_index_sweep"] = n
    run_hypothesis(ctx, sibling_cases(), oracle, 5 if q else 50, "C14-siblings")
    run_hypothesis(ctx, bc.leaf_cases(inv=False), oracle, 20 if q else 200, "C14-leaves")
    run_hypothesis(ctx, bc.tree_cases(3, 7, inv=False) if q else bc.tree_cases(4, 12, inv=False), oracle, 6 if q else 60,
                   "C14-trees")
    run_hypothesis(ctx, bc.flow_cases(), oracle, 2 if q else 20, "C14-flows")
    run_hypothesis(ctx, dist_cases(), oracle, 5 if q else 50, "C14-dists")
    # models as returned by fit_to_data(return_best=True): what users actually jit, vmap and serialise
    run_hypothesis(ctx, dist_cases().map(lambda c: dict(c, trained=True)), oracle, 4 if q else 25, "C14-trained-dists")
