"""C11 - constrained parameters stay valid for every unconstrained value.

(a) constructors reproduce their arguments (magnitudes 1e-6..1e6); (b) after EVERY raw trainable
array has been overwritten by Hypothesis floats in [-50, 50] (what a sequence of optimiser updates can
reach) the validity predicates still hold on unwrap(obj); (c) arguments at the edge of validity are
rejected with an error."""
import math

import equinox as eqx
import jax
import jax.numpy as jnp
import jax.random as jr
import numpy as np
from hypothesis import strategies as st

from flowjax import bijections as B
from flowjax import distributions as D
from flowjax import wrappers
from flowjax.flows import _affine_with_min_scale
from vf import build as bd
from vf import shim
from vf.core import Violation, expect_raises, lib_call, run_hypothesis

F32 = shim.F32
DT = np.float32 if F32 else np.float64
EPS = float(np.finfo(DT).eps)
RT = 1e-5 if F32 else 1e-12


def set_raw(obj, vals):
    """Overwrite every trainable inexact leaf (NonTrainable excluded) with values cycled from vals."""
    params, static = eqx.partition(obj, eqx.is_inexact_array, is_leaf=lambda l: isinstance(l, wrappers.NonTrainable))
    leaves, td = jax.tree_util.tree_flatten(params)
    new, k = [], 0
    for l in leaves:
        n = int(np.prod(l.shape)) if l.shape else 1
        v = np.asarray([vals[(k + i) % len(vals)] for i in range(n)], DT).reshape(l.shape)
        k += n + 1
        new.append(jnp.asarray(v, l.dtype))
    return eqx.combine(jax.tree_util.tree_unflatten(td, new), static)


def finite(name, a, cfg):
    a = np.asarray(a)
    if not np.all(np.isfinite(a)):
        raise Violation(f"C11|{name}|nonfinite", f"{a.tolist()} cfg={cfg}")
    return a.astype(np.float64)


RAW = st.one_of(st.floats(-50, 50, allow_nan=False, width=32), st.sampled_from([-50.0, 50.0, 0.0, -49.999, 30.0, -30.0, 12.0, -12.0]))
SUBJECTS = ["Affine", "Scale", "TriangularAffine", "StudentT", "Normal", "Mixture", "RQS", "MinScaleCoupling",
            "MinScaleMAF", "WeightNorm", "Planar", "PlanarCond", "BNAF", "Exponential", "MVN"]


@st.composite
def raw_cases(draw):
    return {"what": "raw", "subject": draw(st.sampled_from(SUBJECTS)), "vals": draw(st.lists(RAW, min_size=12, max_size=12)),
            "n": draw(st.integers(1, 4)), "knots": draw(st.integers(1, 8)),
            "interval": draw(st.sampled_from([1, 3, [-1, 2], [2, 5], [-4, -1]])),
            "min_derivative": draw(st.sampled_from([1e-3, 1e-2, 0.3])), "softmax_adjust": draw(st.sampled_from([1e-3, 1e-2, 1, 3])),
            "slope": draw(st.sampled_from([None, 0.01, 0.1, 0.5, 1.0])), "seed": draw(st.integers(0, 999))}


def oracle_raw(c, ctx):
    s, vals, n = c["subject"], c["vals"], int(c["n"])
    cfg = {k: c[k] for k in ("subject", "vals", "n")}
    key = jr.PRNGKey(c["seed"])
    if s in ("Affine", "Scale", "Normal", "Exponential"):
        obj = {"Affine": lambda: B.Affine(jnp.zeros(n), jnp.ones(n)), "Scale": lambda: B.Scale(jnp.ones(n)),
               "Normal": lambda: D.Normal(jnp.zeros(n), jnp.ones(n)), "Exponential": lambda: D.Exponential(jnp.ones(n))}[s]()
        obj = set_raw(obj, vals)
        sc = finite(s, obj.scale if s == "Normal" else wrappers.unwrap(obj).scale if s != "Exponential" else 1 / obj.rate, cfg)
        if np.any(sc <= 0):
            raise Violation(f"C11|{s}|scale_not_positive", f"scale={sc.tolist()} cfg={cfg}")
    elif s == "TriangularAffine" or s == "MVN":
        if s == "MVN":
            obj = set_raw(D.MultivariateNormal(jnp.zeros(n), jnp.eye(n)), vals)
            T = finite(s, wrappers.unwrap(obj.bijection.triangular), cfg)
            cov = finite(s, obj.covariance, cfg)
            if not np.allclose(cov, cov.T):  # (diag(cov) may underflow to 0 in float32: not a listed predicate)
                raise Violation("C11|MVN|covariance_invalid", f"{cov.tolist()} cfg={cfg}")
        else:
            obj = set_raw(B.TriangularAffine(jnp.zeros(n), jnp.eye(n), lower=bool(c["seed"] % 2)), vals)
            T = finite(s, wrappers.unwrap(obj).triangular, cfg)
        if np.any(np.diag(T) <= 0):
            raise Violation(f"C11|{s}|diagonal_not_positive", f"diag={np.diag(T).tolist()} cfg={cfg}")
    elif s == "StudentT":
        obj = set_raw(D.StudentT(jnp.full(n, 3.0)), vals)
        df = finite(s, obj.df, cfg)
        if np.any(df <= 0) or np.any(finite(s, obj.scale, cfg) <= 0):
            raise Violation("C11|StudentT|df_not_positive", f"df={df.tolist()} cfg={cfg}")
    elif s == "Mixture":
        k = n + 1
        comp = eqx.filter_vmap(D.Normal)(jnp.arange(float(k)))
        obj = set_raw(D.VmapMixture(comp, jnp.ones(k)), vals)
        lw = np.asarray(wrappers.unwrap(obj.log_normalized_weights), np.float64)
        if not np.all(np.isfinite(lw)) or abs(np.sum(np.exp(lw)) - 1) > (1e-5 if F32 else 1e-12) or np.any(lw > 1e-6):
            raise Violation("C11|Mixture|weights_not_normalised", f"log weights {lw.tolist()} sum={np.sum(np.exp(lw))} cfg={cfg}")
    elif s == "RQS":
        iv = tuple(c["interval"]) if isinstance(c["interval"], list) else c["interval"]
        obj = set_raw(B.RationalQuadraticSpline(knots=int(c["knots"]), interval=iv, min_derivative=c["min_derivative"],
                                                softmax_adjust=c["softmax_adjust"]), vals)
        u = wrappers.unwrap(obj)
        a, b = (float(iv[0]), float(iv[1])) if isinstance(iv, tuple) else (-float(iv), float(iv))
        cfg = dict(cfg, knots=c["knots"], interval=iv, softmax_adjust=c["softmax_adjust"], min_derivative=c["min_derivative"])
        for nm in ("x_pos", "y_pos"):
            p = finite("RQS", getattr(u, nm), cfg)
            if len(p) != int(c["knots"]) + 2 or p[0] != DT(a) or p[-1] != DT(b):
                raise Violation("C11|RQS|ends", f"{nm}={p.tolist()} interval=({a},{b}) cfg={cfg}")
            if np.any(np.diff(p) <= 0):
                raise Violation("C11|RQS|knots_not_increasing", f"{nm}={p.tolist()} cfg={cfg}")
            # documented floor: widths = (softmax + softmax_adjust/K) / (1 + softmax_adjust) of the interval
            # (the two outer bins are each half of the first width)
            K = int(c["knots"])
            floor = float(c["softmax_adjust"]) / (K * (1 + float(c["softmax_adjust"]))) * (b - a)
            wd = np.diff(p)
            slack = 32 * EPS * (abs(a) + abs(b))  # positions are a cumulative sum in the working precision
            if np.any(wd[1:-1] < floor * (1 - 1e-6) - slack) or wd[0] < floor / 2 * (1 - 1e-6) - slack:
                raise Violation("C11|RQS|min_bin_width", f"{nm} widths {wd.tolist()} below the softmax_adjust floor {floor} "
                                                         f"(softmax_adjust={c['softmax_adjust']}, knots={K}) cfg={cfg}")
        d = finite("RQS", u.derivatives, cfg)
        if np.any(d < c["min_derivative"] * (1 - 8 * EPS)):
            raise Violation("C11|RQS|derivative_below_min", f"derivatives={d.tolist()} min={c['min_derivative']} cfg={cfg}")
    elif s in ("MinScaleCoupling", "MinScaleMAF"):
        dim = n + 1
        if s == "MinScaleCoupling":
            obj = B.Coupling(key, transformer=_affine_with_min_scale(), untransformed_dim=1, dim=dim, nn_width=3, nn_depth=1)
        else:
            obj = B.MaskedAutoregressive(key, transformer=_affine_with_min_scale(), dim=dim, nn_width=3, nn_depth=1)
        obj = set_raw(obj, vals)
        x = jnp.asarray(np.asarray([vals[i % len(vals)] / 25 for i in range(dim)], DT))
        J = finite(s, jax.jacfwd(obj.transform)(x), cfg)
        dg = np.diag(J)[(1 if s == "MinScaleCoupling" else 0):]
        if np.any(dg < 1e-2 * (1 - 1e-5)):
            raise Violation(f"C11|{s}|scale_below_min_scale", f"dy_i/dx_i={dg.tolist()} < min_scale=0.01 cfg={cfg}")
    elif s == "WeightNorm":
        w = jr.normal(key, (n + 1, 3))
        obj = set_raw(wrappers.WeightNormalization(w), vals)
        if np.any(np.linalg.norm(np.asarray(obj.weight), axis=-1) < 1e-6):
            ctx.inconcl("zero_row")
            return
        W = finite(s, wrappers.unwrap(obj), cfg)
        sc = finite(s, wrappers.unwrap(obj.scale), cfg)
        norms = np.linalg.norm(W, axis=-1, keepdims=True)
        if np.any(sc <= 0) or np.any(np.abs(norms - sc) > (1e-4 if F32 else 1e-10) * sc):
            raise Violation("C11|WeightNorm|row_norm", f"row norms {norms.tolist()} scale {sc.tolist()} cfg={cfg}")
    elif s in ("Planar", "PlanarCond"):
        dim = n
        slope = c["slope"]
        if s == "Planar":
            obj = set_raw(B.Planar(key, dim=dim, negative_slope=slope), vals)
            pl = obj.get_planar()
        else:
            obj = set_raw(B.Planar(key, dim=dim, cond_dim=2, negative_slope=slope, width_size=3, depth=1), [v / 10 for v in vals])
            pl = obj.get_planar(jnp.asarray(np.asarray(vals[:2], DT) / 25))
        check_planar(pl, slope, dict(cfg, slope=slope), ctx)
    elif s == "BNAF":
        obj = set_raw(B.BlockAutoregressiveNetwork(key, dim=n, depth=1 + c["seed"] % 2, block_dim=2), vals)
        for (lin, _), (raw_lin, _) in zip(wrappers.unwrap(obj).layers, obj.layers):
            pre = np.asarray(wrappers.unwrap(raw_lin.weight.weight), np.float64)  # masked/constrained, before weight norm
            sc_row = np.asarray(wrappers.unwrap(raw_lin.weight.scale), np.float64).reshape(-1)
            if F32 and (np.any(np.max(np.abs(pre), axis=-1) < 1e-18) or np.any(np.max(np.abs(pre), axis=-1) * sc_row < 1e-34)):
                # known finding (float32 only): the squared row norm, or the product scale*weight, underflows; excluded here, probed separately
                ctx.exclude("bnaf_f32_row_norm_underflow")
                continue
            W = finite("BNAF", lin.weight, cfg)
            nz = np.linalg.norm(W, axis=-1)
            if np.any(nz <= 0):
                raise Violation("C11|BNAF|weight_row_zero", f"{W.tolist()} cfg={cfg}")
    if any(abs(v) > 1 for v in vals):
        ctx.mark_nontrivial(c)
    ctx.hist("raw_subject", s)


def check_planar(pl, slope, cfg, ctx):
    w = np.asarray(pl.weight, np.float64)
    u_raw = np.asarray(pl._act_scale, np.float64)
    if np.linalg.norm(w) < 1e-6 or not np.all(np.isfinite(w)) or not np.all(np.isfinite(u_raw)):
        ctx.inconcl("planar_w_zero")
        return
    uh = finite("Planar", pl.get_act_scale(), cfg)
    wu, wuh = float(w @ u_raw), float(w @ uh)
    tol = 256 * EPS * (1 + abs(wu) + float(np.abs(w) @ np.abs(uh)))
    if wuh < -1 - tol:
        raise Violation("C11|Planar|constraint", f"w.u_hat={wuh!r} < -1 (w.u={wu!r}) cfg={cfg}")
    thresh = -12.0 if F32 else -30.0  # below this softplus underflows and w.u_hat == -1 to rounding (inherent)
    if wu > thresh:
        slopes = [1.0] + ([] if slope is None else [float(slope)])
        for sl in slopes:
            if 1 + sl * wuh <= 0 and abs(1 + wuh) > tol:
                raise Violation("C11|Planar|not_invertible", f"1 + s*w.u_hat = {1 + sl * wuh!r} <= 0 for slope {sl} "
                                                             f"(w.u={wu!r}) cfg={cfg}")
        if wu > thresh / 2 and not wuh > -1:
            raise Violation("C11|Planar|constraint_not_strict", f"w.u_hat={wuh!r} not > -1 although w.u={wu!r}; cfg={cfg}")


# ------------------------------- (a) constructor arguments reproduced ----------------------------
def logmag():
    return st.floats(math.log(1e-6), math.log(1e6)).map(math.exp)


@st.composite
def arg_cases(draw):
    n = draw(st.integers(1, 4))
    return {"what": "args", "subject": draw(st.sampled_from(["Affine", "Scale", "TriangularAffine", "StudentT", "Mixture",
                                                           "Exponential", "Uniform", "MVN"])),
            "pos": draw(st.lists(logmag(), min_size=n, max_size=n)), "loc": draw(st.lists(st.floats(-1e3, 1e3), min_size=n, max_size=n)),
            "scalar": draw(st.booleans())}


def oracle_args(c, ctx):
    s = c["subject"]
    pos = np.asarray(c["pos"], DT)
    loc = np.asarray(c["loc"], DT)
    if c["scalar"]:
        pos, loc = pos[0], loc[0]
    jp, jl = jnp.asarray(pos), jnp.asarray(loc)

    def same(name, got, want, rt=RT):
        got, want = np.asarray(got, np.float64), np.asarray(want, np.float64)
        if got.shape != want.shape or np.any(np.abs(got - want) > rt * np.abs(want) + 1e-300):
            raise Violation(f"C11|{s}|argument_not_reproduced.{name}", f"got {got.tolist()} argument {want.tolist()}")

    if s == "Affine":
        o = lib_call("C11|Affine|construct", B.Affine, jl, jp)
        same("scale", wrappers.unwrap(o.scale), np.broadcast_to(pos, o.shape))
        same("loc", o.loc, np.broadcast_to(loc, o.shape))
    elif s == "Scale":
        same("scale", wrappers.unwrap(lib_call("C11|Scale|construct", B.Scale, jp).scale), pos)
    elif s == "TriangularAffine":
        n = np.size(pos)
        A = np.tril(np.ones((n, n), DT)) * 0.5
        A[np.diag_indices(n)] = pos
        o = lib_call("C11|TriangularAffine|construct", B.TriangularAffine, jnp.zeros(n), jnp.asarray(A))
        same("triangular", wrappers.unwrap(o.triangular), A)
    elif s == "StudentT":
        o = lib_call("C11|StudentT|construct", D.StudentT, jp, jl, jp)
        same("df", o.df, pos)
        same("scale", o.scale, pos)
    elif s == "Exponential":
        same("rate", lib_call("C11|Exponential|construct", D.Exponential, jp).rate, pos, rt=10 * RT)
    elif s == "Uniform":
        if np.any(np.asarray(loc + pos) <= np.asarray(loc)):  # width below float resolution at loc: not a valid argument
            ctx.inconcl("uniform_width_below_resolution")
            return
        o = lib_call("C11|Uniform|construct", D.Uniform, jl, jl + jp)
        same("minval", o.minval, loc)
        got, want = np.asarray(o.maxval, np.float64), np.asarray(loc + pos, np.float64)
        if np.any(np.abs(got - want) > max(RT, 8 * EPS) * (np.abs(loc) + np.abs(want))):
            raise Violation("C11|Uniform|argument_not_reproduced.maxval", f"got {got.tolist()} argument {want.tolist()}")
    elif s == "Mixture":
        w = np.atleast_1d(pos)
        if len(w) < 2:
            w = np.concatenate([w, w * 3])
        comp = eqx.filter_vmap(D.Normal)(jnp.arange(float(len(w))))
        o = lib_call("C11|Mixture|construct", D.VmapMixture, comp, jnp.asarray(w))
        got = np.exp(np.asarray(wrappers.unwrap(o.log_normalized_weights), np.float64))
        same("weights", got, w.astype(np.float64) / np.sum(w.astype(np.float64)), rt=1e-4 if F32 else 1e-10)
    elif s == "MVN":
        n = max(2, np.size(pos))
        A = np.asarray(jr.normal(jr.PRNGKey(int(abs(float(np.sum(loc))) * 7) % 1000), (n, n)), np.float64)
        cov = A @ A.T + float(np.atleast_1d(pos)[0] ** 0.25) * np.eye(n)
        o = lib_call("C11|MVN|construct", D.MultivariateNormal, jnp.zeros(n), jnp.asarray(cov.astype(DT)))
        kap = np.linalg.cond(cov)
        if np.max(np.abs(np.asarray(o.covariance, np.float64) - cov)) > 64 * EPS * kap * np.max(np.abs(cov)):
            raise Violation("C11|MVN|argument_not_reproduced.covariance", f"{np.asarray(o.covariance).tolist()} vs {cov.tolist()}")
    if np.any((np.asarray(pos) < 0.1) | (np.asarray(pos) > 10)):
        ctx.mark_nontrivial(c)
    ctx.hist("args_subject", s)


# ------------------------------- (c) invalid arguments are rejected ------------------------------
def invalid_cases():
    bad = [0.0, -0.0, -1e-30, -1.0, -1e6]
    for v in bad:
        for vec in (False, True):
            arr = [1.0, v, 2.0] if vec else v
            yield {"what": "invalid", "ctor": "Affine.scale", "v": arr}
            yield {"what": "invalid", "ctor": "Scale.scale", "v": arr}
            yield {"what": "invalid", "ctor": "Normal.scale", "v": arr}
            yield {"what": "invalid", "ctor": "StudentT.df", "v": arr}
            yield {"what": "invalid", "ctor": "StudentT.scale", "v": arr}
            yield {"what": "invalid", "ctor": "Laplace.scale", "v": arr}
            if vec:
                yield {"what": "invalid", "ctor": "Mixture.weights", "v": arr}
                yield {"what": "invalid", "ctor": "TriangularAffine.diag", "v": arr}
    for v in (-1.0, -1e-3, -1e6):
        yield {"what": "invalid", "ctor": "Exponential.rate", "v": v}
    for lo, hi in ((0.0, 0.0), (1.0, 1.0), (2.0, 1.0), (0.0, -1e-30), (-1.0, -1.0)):
        yield {"what": "invalid", "ctor": "Uniform", "v": [lo, hi]}
        yield {"what": "invalid", "ctor": "Uniform.vec", "v": [lo, hi]}
    for p in ([0, 0], [0, 2], [1, 2, 3], [-1, 0], [0, 1, 1], [[0, 1], [1, 2]], [2, 0, 2]):
        yield {"what": "invalid", "ctor": "Permute", "v": p}


def oracle_invalid(c, ctx):
    k, v = c["ctor"], c["v"]
    a = jnp.asarray(np.asarray(v, DT)) if k != "Permute" else jnp.asarray(np.asarray(v, int))
    fn = {
        "Affine.scale": lambda: B.Affine(jnp.zeros(np.shape(v)), a), "Scale.scale": lambda: B.Scale(a),
        "Normal.scale": lambda: D.Normal(0.0, a), "StudentT.df": lambda: D.StudentT(a), "StudentT.scale": lambda: D.StudentT(3.0, 0.0, a),
        "Laplace.scale": lambda: D.Laplace(0.0, a),
        "Mixture.weights": lambda: D.VmapMixture(eqx.filter_vmap(D.Normal)(jnp.arange(3.0)), a),
        "TriangularAffine.diag": lambda: B.TriangularAffine(jnp.zeros(3), jnp.diag(a) + jnp.tril(jnp.ones((3, 3)), -1)),
        "Exponential.rate": lambda: D.Exponential(a), "Uniform": lambda: D.Uniform(a[0], a[1]),
        "Uniform.vec": lambda: D.Uniform(jnp.asarray([0.0, a[0]]), jnp.asarray([1.0, a[1]])), "Permute": lambda: B.Permute(a),
    }[k]
    expect_raises(f"C11|invalid_accepted|{k}", lambda: jax.block_until_ready(jax.tree_util.tree_leaves(fn())))
    ctx.mark_nontrivial(c)
    ctx.hist("invalid_ctor", k)


def oracle(c, ctx):
    ctx.evaluated()
    {"raw": oracle_raw, "args": oracle_args, "invalid": oracle_invalid, "planar_probe": oracle_planar_probe,
     "bnaf_f32_probe": oracle_bnaf_f32_probe}[c["what"]](c, ctx)
    if ctx.evaluations % 43 == 1:
        ctx.sample(c)


def oracle_planar_probe(c, ctx):
    """Direct planar layer with given raw parameters and slope (used for the D7 known finding)."""
    d = len(c["w"])
    obj = B.Planar(jr.PRNGKey(0), dim=d, negative_slope=c["slope"])
    obj = eqx.tree_at(lambda p: p.params, obj, jnp.asarray(np.asarray(c["w"] + c["u"] + [c["b"]], DT)))
    pl = obj.get_planar()
    uh = np.asarray(pl.get_act_scale(), np.float64)
    wuh = float(np.asarray(c["w"]) @ uh)
    if 1 + float(c["slope"]) * wuh <= 0:
        raise Violation("C11|Planar|not_invertible|negative_slope>1",
                        f"1 + s*w.u_hat = {1 + c['slope'] * wuh!r} <= 0 with documented-valid negative_slope={c['slope']}")


def oracle_bnaf_f32_probe(c, ctx):
    """float32 only: a BNAF weight row whose single non-masked entry is softplus(-44) ~ 8e-20."""
    if not F32:
        import subprocess, sys, os, json as _json  # run the probe in a float32 interpreter
        env = dict(os.environ, VF_F32="1")
        code = ("from vf import shim; import json; from vf.core import Ctx, Violation; import vf.props.c11 as m\n"
                "try:\n    m.oracle_bnaf_f32_probe(%r, Ctx('C11','quick',1,0,1)); print('PASS')\n"
                "except Violation as v:\n    print('FAIL', v.signature)" % (c,))
        out = subprocess.run([sys.executable, "-c", code], env=env, capture_output=True, text=True, timeout=600).stdout
        if "FAIL" in out:
            raise Violation("C11|BNAF|float32_row_norm_underflow", out.strip()[-300:])
        return
    obj = set_raw(B.BlockAutoregressiveNetwork(jr.PRNGKey(0), dim=2, depth=1, block_dim=2), c["vals"])
    for lin, _ in wrappers.unwrap(obj).layers:
        if not np.all(np.isfinite(np.asarray(lin.weight))):
            raise Violation("C11|BNAF|float32_row_norm_underflow", f"weights {np.asarray(lin.weight).tolist()}")


def replay(spec, ctx):
    oracle(spec.get("spec", spec) if "what" not in spec else spec, ctx)


def run(ctx):
    q = ctx.tier == "quick"
    if ctx.gindex == 0:
        n = 0
        for c in invalid_cases():
            try:
                oracle(c, ctx)
            except Violation as v:
                ctx.fail(v.signature, c, v.detail)
            n += 1
        ctx.exhaustive["invalid_argument_list"] = n
    run_hypothesis(ctx, raw_cases(), oracle, 150 if q else 1500, "C11-raw")
    run_hypothesis(ctx, arg_cases(), oracle, 60 if q else 600, "C11-args")


# =====================================================================================================
# Histories: a Hypothesis rule-based state machine drives REAL optimiser updates (both training loops,
# several optimisers and learning rates, occasional jolts of the raw parameters) and checks after every
# step that every constrained node of the model is still valid.
# =====================================================================================================
def validate_model(model, where, ctx=None):
    """Walk the (wrapped) model; for every node of a constrained class check its predicates on unwrap(node)."""
    kinds = (B.Affine, B.Scale, B.TriangularAffine, B.RationalQuadraticSpline, D.VmapMixture, D._StandardStudentT,
             W_.WeightNormalization)
    nodes = [n for n in jax.tree_util.tree_leaves(model, is_leaf=lambda n: isinstance(n, kinds)) if isinstance(n, kinds)]
    for n in nodes:
        name = type(n).__name__
        if isinstance(n, W_.WeightNormalization):
            u = np.asarray(W_.unwrap(n), np.float64)
            sc = np.asarray(W_.unwrap(n.scale), np.float64)
            if not np.all(np.isfinite(u)) or np.any(sc <= 0) or np.any(np.abs(np.linalg.norm(u, axis=-1, keepdims=True) - sc) > 1e-8 * sc):
                raise Violation(f"C11|history|WeightNormalization|{where}", f"row norms {np.linalg.norm(u, axis=-1).tolist()} scale {sc.tolist()}")
            continue
        u = W_.unwrap(n)
        if isinstance(n, (B.Affine, B.Scale)):
            sc = np.asarray(u.scale, np.float64)
            if not np.all(np.isfinite(sc)) or np.any(sc <= 0):
                raise Violation(f"C11|history|{name}.scale|{where}", f"scale {sc.tolist()}")
        elif isinstance(n, B.TriangularAffine):
            T = np.asarray(u.triangular, np.float64)
            dg = np.diagonal(T, axis1=-2, axis2=-1)
            if not np.all(np.isfinite(T)) or np.any(dg <= 0):
                raise Violation(f"C11|history|TriangularAffine.diag|{where}", f"diag {dg.tolist()}")
        elif isinstance(n, B.RationalQuadraticSpline):
            a, b = float(n.interval[0]), float(n.interval[1])
            for nm in ("x_pos", "y_pos"):
                p = np.asarray(getattr(u, nm), np.float64)
                if not np.all(np.isfinite(p)) or np.any(np.diff(p, axis=-1) <= 0) or np.any(p[..., 0] != a) or np.any(p[..., -1] != b):
                    raise Violation(f"C11|history|RQS.{nm}|{where}", f"{p.tolist()}")
            d = np.asarray(u.derivatives, np.float64)
            if not np.all(np.isfinite(d)) or np.any(d < n.min_derivative * (1 - 1e-12)):
                raise Violation(f"C11|history|RQS.derivatives|{where}", f"{d.tolist()}")
        elif isinstance(n, D.VmapMixture):
            lw = np.asarray(u.log_normalized_weights, np.float64)
            if not np.all(np.isfinite(lw)) or abs(np.sum(np.exp(lw)) - 1) > 1e-12:
                raise Violation(f"C11|history|Mixture.weights|{where}", f"{lw.tolist()}")
        elif isinstance(n, D._StandardStudentT):
            df = np.asarray(u.df, np.float64)
            if not np.all(np.isfinite(df)) or np.any(df <= 0):
                raise Violation(f"C11|history|StudentT.df|{where}", f"{df.tolist()}")
    return len(nodes)


from flowjax import wrappers as W_  # noqa: E402


def history_model(kind, seed):
    dim = 2
    base = D.StandardNormal((dim,))
    if kind == "studentt_maf_spline":
        return bd.build_flow({"factory": "masked_autoregressive_flow", "dim": dim, "cond_dim": None, "invert": True, "layers": 2,
                              "key": seed, "transformer": "rqs", "width": 4}, base=D.StudentT(jnp.full(dim, 3.0)))
    if kind == "mixture":
        return D.VmapMixture(eqx.filter_vmap(lambda m: D.Normal(m * jnp.ones(dim), jnp.ones(dim)))(jnp.arange(3.0)), jnp.ones(3))
    if kind == "mvn":
        return D.MultivariateNormal(jnp.zeros(dim), jnp.eye(dim))
    spec = {"factory": kind, "dim": dim, "cond_dim": None, "invert": True, "layers": 2, "key": seed, "width": 4,
            "negative_slope": 0.5, "tight": False, "knots": 4}
    return bd.build_flow(spec, base=base)


def run_history_machine(ctx, n_examples, steps):
    import hypothesis
    from hypothesis import HealthCheck, settings
    from hypothesis.stateful import RuleBasedStateMachine, initialize, invariant, rule, run_state_machine_as_test
    import optax
    from flowjax.train import fit_to_data, fit_to_variational_target
    from flowjax.train.losses import ElboLoss

    if F32:
        return
    kinds = ["coupling_flow", "masked_autoregressive_flow", "triangular_spline_flow", "block_neural_autoregressive_flow",
             "planar_flow", "studentt_maf_spline", "mixture", "mvn"]
    opts = {"sgd": optax.sgd, "adam": optax.adam, "adamw": lambda lr: optax.adamw(lr, weight_decay=0.5), "rmsprop": optax.rmsprop}
    failures = {}

    class History(RuleBasedStateMachine):
        def __init__(self):
            super().__init__()
            self.model, self.trace = None, []

        @initialize(kind=st.sampled_from(kinds), seed=st.integers(0, 99))
        def start(self, kind, seed):
            self.kind, self.model = kind, history_model(kind, seed)
            self.trace = [("init", kind, seed)]
            self.k = seed

        @rule(opt=st.sampled_from(sorted(opts)), lr=st.sampled_from([1e-2, 0.3, 3.0, 30.0]), epochs=st.integers(1, 2), dscale=st.sampled_from([1.0, 30.0]))
        def train_data(self, opt, lr, epochs, dscale):
            if self.kind == "mvn" and opt == "never":
                return
            self.k += 1
            x = dscale * jr.normal(jr.PRNGKey(self.k), (12, 2))
            self.trace.append(("fit_to_data", opt, lr, epochs, dscale))
            m, _ = fit_to_data(jr.PRNGKey(self.k + 1), self.model, x, max_epochs=epochs, batch_size=6, val_prop=0.25,
                               optimizer=opts[opt](lr), show_progress=False, return_best=False, max_patience=10)
            self._accept(m)

        @rule(opt=st.sampled_from(sorted(opts)), lr=st.sampled_from([1e-2, 0.3, 3.0]), steps=st.integers(1, 2))
        def train_vi(self, opt, lr, steps):
            if self.kind in ("mixture", "block_neural_autoregressive_flow"):
                return  # mixture sampling is not reparameterised; BNAF(invert=True) samples by bisection (no reverse-mode gradient)
            self.k += 1
            self.trace.append(("fit_to_variational_target", opt, lr, steps))
            target = lambda v: -0.5 * jnp.sum((v - 2.0) ** 2) * 4.0  # noqa: E731
            m, _ = fit_to_variational_target(jr.PRNGKey(self.k), self.model, ElboLoss(target, 4), steps=steps,
                                             optimizer=opts[opt](lr), show_progress=False, return_best=False)
            self._accept(m)

        @rule(scale=st.sampled_from([1.0, 5.0, 20.0]), seed=st.integers(0, 999))
        def jolt(self, scale, seed):
            self.trace.append(("jolt", scale, seed))
            self._accept(bd.perturb(self.model, scale, seed))

        def _accept(self, m):
            # updates that leave the box of the property (non-finite or |raw| > 50) are outside its quantifier
            p, _ = eqx.partition(m, eqx.is_inexact_array, is_leaf=lambda l: isinstance(l, W_.NonTrainable))
            leaves = [np.asarray(l) for l in jax.tree_util.tree_leaves(p)]
            if all(np.all(np.isfinite(l)) and np.all(np.abs(l) <= 50) for l in leaves):
                self.model = m
            else:
                self.trace.append(("rejected: left the |raw|<=50 box",))
                ctx.exclude("history_step_left_raw_box")

        @invariant()
        def valid(self):
            if self.model is None:
                return
            ctx.evaluated()
            n = validate_model(self.model, self.kind)
            ctx.hist("history_model", self.kind)
            if len(self.trace) >= 3:
                ctx.mark_nontrivial({"trace": self.trace})
            if len(self.trace) >= 4 and ctx.evaluations % 5 == 0:
                ctx.sample({"what": "history", "trace": [list(t) for t in self.trace], "constrained_nodes": n})

    sd = (ctx.seed * 1_000_003 + ctx.index * 7919 + 4242) % (2**63)
    machine = hypothesis.seed(sd)(History)
    try:
        run_state_machine_as_test(machine, settings=settings(max_examples=n_examples, stateful_step_count=steps, deadline=None,
                                                             database=None, suppress_health_check=list(HealthCheck),
                                                             report_multiple_bugs=False, print_blob=False))
    except Violation as v:
        ctx.fail(v.signature, {"what": "history", "note": "re-run the state machine with the same VERIF_SEED/worker to replay",
                               "detail": v.detail[:500]}, v.detail)


_run_without_history = run


def run(ctx):  # noqa: F811
    _run_without_history(ctx)
    q = ctx.tier == "quick"
    run_history_machine(ctx, 2 if q else 12, 6 if q else 12)
