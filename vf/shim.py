"""Process-level setup. MUST be imported before jax / equinox / flowjax.

* fixes the numeric mode (x64 unless VF_F32=1), CPU platform, single intra-op thread
* EQX_ON_ERROR=raise so eqx.error_if raises a Python exception
* installs the equinox/jax compatibility shim described in DESIGN.md F2: equinox 0.13.8's
  ``is_inexact_array_like`` calls ``x.__jax_array__()`` which is ``None`` on jax 0.11 tracers.
  The replacement treats a None ``__jax_array__`` as absent.  It only affects a warning check
  inside equinox's Module constructor; no flowjax code is touched.
"""
import os
import sys

os.environ.setdefault("JAX_PLATFORMS", "cpu")
os.environ["EQX_ON_ERROR"] = "raise"
os.environ.setdefault("OMP_NUM_THREADS", "1")
os.environ.setdefault("OPENBLAS_NUM_THREADS", "1")
os.environ.setdefault("MKL_NUM_THREADS", "1")
os.environ.setdefault(
    "XLA_FLAGS",
    "--xla_cpu_multi_thread_eigen=false intra_op_parallelism_threads=1",
)
os.environ.setdefault("TQDM_DISABLE", "1")

REPO = os.environ.get("VF_REPO", "/repo")
if REPO not in sys.path:
    sys.path.insert(0, REPO)

import warnings  # noqa: E402

warnings.filterwarnings("ignore")

import jax  # noqa: E402

F32 = os.environ.get("VF_F32", "0") == "1"
jax.config.update("jax_enable_x64", not F32)

import jax.numpy as jnp  # noqa: E402
import numpy as np  # noqa: E402
import equinox._module._module as _eqm  # noqa: E402


def _is_inexact_array_like(element):  # shim (DESIGN.md F2)
    if hasattr(element, "__jax_array__"):
        conv = getattr(element, "__jax_array__")
        if conv is not None:
            try:
                element = conv()
            except TypeError:
                pass
    if isinstance(element, (np.ndarray, np.generic)):
        return bool(np.issubdtype(element.dtype, np.inexact))
    if isinstance(element, jax.Array):
        return bool(jnp.issubdtype(element.dtype, jnp.inexact))
    return isinstance(element, (float, complex))


if hasattr(_eqm, "is_inexact_array_like"):
    _eqm.is_inexact_array_like = _is_inexact_array_like

import flowjax  # noqa: E402

_fj = os.path.dirname(os.path.abspath(flowjax.__file__))
if not _fj.startswith(os.path.abspath(REPO)):
    raise RuntimeError(f"flowjax imported from {_fj}, expected under {REPO}")
FLOWJAX_DIR = _fj
