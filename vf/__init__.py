"""Property-based verification harness for flowjax (see /verif/DESIGN.md)."""
