#!/usr/bin/env python3
"""Regenerate the table in DESIGN.md section 9 from seeded/*/meta.json."""
import json, os, re
HERE = os.path.dirname(os.path.dirname(os.path.abspath(__file__)))
rows = []
notes = []
for n in sorted(os.listdir(os.path.join(HERE, "seeded"))):
    mp = os.path.join(HERE, "seeded", n, "meta.json")
    if not os.path.exists(mp):
        continue
    m = json.load(open(mp))
    sig = ""
    for c, v in m.get("checks", {}).items():
        if v.get("signatures"):
            sig = v["signatures"][0].split("::")[0].replace("failure:", "").strip()
            break
    rows.append(f"| {n} | {m.get('property')} | {(m.get('summary') or '').replace('|', '/')[:230]} | "
                f"{(m.get('needs_to_manifest') or '').replace('|', '/')[:200]} | "
                f"{'yes' if m.get('confirmed') else 'NO'} | {', '.join(m.get('caught_by') or []) or '**missed**'}{' (*)' if m.get('history') else ''} | `{sig[:90]}` |")
    if m.get("history"):
        notes.append(f"(*) {n}: {m['history']}")
hdr = ("Round 1: 36 changes written by 18 independent sub-agents (two per property); round 2: 18 further changes (`*_C`), one per property,\n"
       "with the instruction to differ from round 1 and be harder to notice; round 3 (`*_D`): 18 further changes, one per property, by 18\n"
       "fresh sub-agents that were given the one-line summaries of the earlier changes for their property and told to use a different location and mechanism; round 4 (`*_E`): 6 more for the properties\n"
       "whose checks had missed a round-3 change (C01, C05, C06, C08, C12, C14); `own_D*`: each of my own `fix:` commits\n"
       "un-applied (tools/ownfix.py; their shrunk replays became corpus regression cases).  The agents (each saw only the property record and a scratch worktree, nothing of\n"
       "/verif).  For each one `tools/seedall.py` confirmed in a scratch worktree: the demonstration passes without the patch and\n"
       "fails with it, the repo's 299-test baseline stays green with it, and ran the property's quick check with `VF_REPO` pointing\n"
       "at the patched worktree.  (C13_A and four spline patches were re-based by hand onto the `fix:` commits; the edits are the same.)\n\n"
       "| id | property | change | needs to manifest | confirmed | caught by (quick) | first signature |\n|---|---|---|---|---|---|---|\n")
p = os.path.join(HERE, "DESIGN.md")
s = open(p).read()
s = re.sub(r"<!-- SEED-TABLE-BEGIN -->.*<!-- SEED-TABLE-END -->", "<!-- SEED-TABLE-BEGIN -->\n" + hdr + "\n".join(rows) + "\n\n" + "\n".join(notes) + "\n<!-- SEED-TABLE-END -->", s, flags=re.S)
open(p, "w").write(s)
print(len(rows), "rows")
