#!/usr/bin/env python3
"""tools/seedcheck.py SEED_DIR [--checks C01,C08] [--demo] [--tier quick]

Applies seeded/<dir>/patch.diff to /repo (git apply), optionally runs the demonstration
(must exit != 0 with the patch, 0 without), runs the named checks, ALWAYS reverts
(git checkout -- .), and prints/records which checks caught the change."""
import argparse, json, os, subprocess, sys, time

HERE = os.path.dirname(os.path.dirname(os.path.abspath(__file__)))
REPO = "/repo"


def sh(cmd, **kw):
    return subprocess.run(cmd, shell=True, stdout=subprocess.PIPE, stderr=subprocess.STDOUT, text=True, **kw)


def main():
    ap = argparse.ArgumentParser()
    ap.add_argument("seed")
    ap.add_argument("--checks", default="")
    ap.add_argument("--demo", action="store_true")
    ap.add_argument("--tier", default="quick")
    ap.add_argument("--baseline", action="store_true")
    a = ap.parse_args()
    d = a.seed if os.path.isdir(a.seed) else os.path.join(HERE, "seeded", a.seed)
    patch = os.path.join(d, "patch.diff")
    assert sh(f"git -C {REPO} status --porcelain").stdout.strip() == "", "/repo not clean"
    res = {"seed": os.path.basename(d), "checks": {}}
    env = dict(os.environ, PYTHONPATH=REPO)
    demo = os.path.join(d, "demo.py")
    if a.demo and os.path.exists(demo):
        r = sh(f"/venv/bin/python {demo}", env=env, timeout=900)
        res["demo_without_patch_rc"] = r.returncode
    ap_ = sh(f"git -C {REPO} apply --3way {patch}")
    if ap_.returncode != 0:
        print("PATCH DOES NOT APPLY:", ap_.stdout)
        sh(f"git -C {REPO} reset -q --hard HEAD")
        return 3
    try:
        if a.demo and os.path.exists(demo):
            r = sh(f"/venv/bin/python {demo}", env=env, timeout=900)
            res["demo_with_patch_rc"] = r.returncode
            res["demo_tail"] = r.stdout.strip().splitlines()[-3:]
        if a.baseline:
            r = sh(f"python3 {HERE}/tools/baseline.py", timeout=1800)
            res["baseline_ok"] = r.returncode == 0
        for c in [c for c in a.checks.split(",") if c]:
            t = time.time()
            r = sh(f"./check {c} --tier {a.tier}", cwd=HERE, timeout=7200)
            lines = [l for l in r.stdout.splitlines() if l.startswith(("VIOLATION", "  failure", "HARNESS", "KNOWN"))]
            res["checks"][c] = {"rc": r.returncode, "wall_s": round(time.time() - t, 1), "lines": lines[:8]}
    finally:
        sh(f"git -C {REPO} reset -q --hard HEAD")
        assert sh(f"git -C {REPO} status --porcelain").stdout.strip() == ""
    print(json.dumps(res, indent=1))
    return 0


if __name__ == "__main__":
    sys.exit(main())
