#!/bin/sh
# tools/run_tier.sh TIER SEED [props...]  - run checks sequentially, log exit codes (used with `vp run`)
TIER=$1; SEED=$2; shift 2
PROPS=${@:-C16 C13 C11 C15 C05 C07 C10 C08 C09 C12 C06 C04 C18 C02 C01 C03 C17 C14}
for p in $PROPS; do
  s=$(date +%s)
  VERIF_SEED=$SEED ./check $p --tier $TIER > out_${p}_${TIER}_${SEED}.log 2>&1
  rc=$?
  echo "$p tier=$TIER seed=$SEED rc=$rc wall=$(( $(date +%s) - s ))s $(tail -1 out_${p}_${TIER}_${SEED}.log | cut -c1-160)"
  grep -h "VIOLATION\|HARNESS\|  failure" out_${p}_${TIER}_${SEED}.log | cut -c1-300 | head -5
done
