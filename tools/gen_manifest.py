#!/usr/bin/env python3
"""Generate /verif/MANIFEST.json from vf/registry.json (one entry per implemented property)."""
import json, os
HERE = os.path.dirname(os.path.dirname(os.path.abspath(__file__)))
reg = json.load(open(os.path.join(HERE, "vf", "registry.json")))
props = [json.loads(l) for l in open(os.path.join(HERE, "properties.jsonl"))]
hooks_commits = json.load(open(os.path.join(HERE, "vf", "hooks.json"))) if os.path.exists(os.path.join(HERE, "vf", "hooks.json")) else []
checks, na = [], []
for p in props:
    pid = p["id"]
    r = reg.get(pid)
    if r is None or r.get("disabled"):
        na.append({"property_id": pid, "reason": (r or {}).get("disabled", "check not yet built in this revision of /verif (planned, see DESIGN.md section 4)")})
        continue
    checks.append({
        "property_id": pid,
        "quick_cmd": f"./check {pid} --tier quick",
        "thorough_cmd": f"./check {pid} --tier thorough",
        "evidence_file": f"evidence/{pid}.json",
        "replay_cmd_template": f"./check {pid} --replay {{path}}",
        "engine": "vf",
        "level_claimed": {"category": r["level"], "text": r["level_text"], "design_ref": f"DESIGN.md section 4, {pid}"},
        "level_note": r["level_note"],
        "technique": r["technique"],
    })
man = {
    "version": 1,
    "setup_cmd": "./setup.sh",
    "hooks": {
        "guard": "FLOWJAX_VERIF",
        "enable": "checks export FLOWJAX_VERIF=1; no source hooks exist (every observation goes through public extension points), so the flag currently changes nothing in /repo",
        "baseline_off_cmd": "python3 tools/baseline.py",
        "source_commits": hooks_commits,
        "add_only": True,
    },
    "engines": [{"name": "vf", "path": "vf/", "serves_properties": [c["property_id"] for c in checks],
                 "kind_free_text": "Hypothesis-driven generated search + exhaustive enumeration of finite domains against explicit oracles (reference interpreters, autodiff, closed forms, scripted training histories); 14 worker processes; JSON specs are the replay files"}],
    "checks": checks,
    "not_applicable": na,
    "notes": "All checks import flowjax from /repo's working tree (PYTHONPATH=/repo first; no build step). Exit 2 = harness error/watchdog (inconclusive), never reported as pass or violation. known_findings.json lists open findings (KNOWN-FINDING lines) and fixed ones (regression corpus).",
}
json.dump(man, open(os.path.join(HERE, "MANIFEST.json"), "w"), indent=1)
print("checks:", [c["property_id"] for c in checks], "n/a:", [n["property_id"] for n in na])
