#!/usr/bin/env python3
"""tools/seedall.py [SEED ...]  - confirm and evaluate seeded changes in SCRATCH WORKTREES of /repo
(never in /repo itself): for each seeded/<id>: fresh worktree at /repo HEAD, run the demonstration
without the patch (must exit 0), apply the patch, run the demonstration (must exit != 0), run the repo
baseline (must stay green), run the property's quick check with VF_REPO pointing at the worktree (must
exit 1), remove the worktree.  Results -> seeded/<id>/meta.json."""
import json, os, subprocess, sys, time, shutil

HERE = os.path.dirname(os.path.dirname(os.path.abspath(__file__)))
WT = "/tmp/seedwt"


def sh(cmd, **kw):
    return subprocess.run(cmd, shell=True, stdout=subprocess.PIPE, stderr=subprocess.STDOUT, text=True, **kw)


CHECK_ONLY = "--check-only" in sys.argv  # regression of the final checks against already-confirmed seeds


def one(name, baseline=True, extra_checks=()):
    if CHECK_ONLY:
        return recheck(name)
    d = os.path.join(HERE, "seeded", name)
    prop = name.split("_")[0]
    wt = os.path.join(WT, name)
    sh(f"git -C /repo worktree remove --force {wt}")
    shutil.rmtree(wt, ignore_errors=True)
    os.makedirs(WT, exist_ok=True)
    assert sh(f"git -C /repo worktree add -q --detach {wt} HEAD").returncode == 0
    head = sh("git -C /repo rev-parse --short HEAD").stdout.strip()
    meta = {"id": name, "property": prop, "repo_head": head, "ran": []}
    notes = None
    for cand in (os.path.join(d, "agent_notes.json"), os.path.join(HERE, "seeded", prop + "_A", "agent_notes.json")):
        if os.path.exists(cand):
            notes = json.load(open(cand)).get(name.split("_")[1])
            break
    if notes:
        meta["summary"] = notes.get("summary")
        meta["needs_to_manifest"] = notes.get("needs")
    try:
        env = dict(os.environ, PYTHONPATH=wt)
        demo = os.path.join(d, "demo.py")
        r0 = sh(f"/venv/bin/python {demo}", env=env, cwd=wt, timeout=1200)
        meta["demo_without_patch_rc"] = r0.returncode
        ap = sh(f"git -C {wt} apply {d}/patch.diff")
        meta["patch_applies"] = ap.returncode == 0
        if ap.returncode:
            meta["error"] = ap.stdout[-500:]
            return meta
        r1 = sh(f"/venv/bin/python {demo}", env=env, cwd=wt, timeout=1200)
        meta["demo_with_patch_rc"] = r1.returncode
        meta["demo_tail"] = r1.stdout.strip().splitlines()[-2:]
        meta["ran"].append(f"PYTHONPATH=<worktree> /venv/bin/python demo.py  (without patch rc={r0.returncode}, with patch rc={r1.returncode})")
        if baseline:
            base = json.load(open("/root/.vp/BASELINE.json"))
            rb = sh(f"python3 {HERE}/tools/baseline_wt.py {wt}", timeout=2400)
            meta["baseline_still_green"] = rb.returncode == 0
            meta["ran"].append("repo baseline suite in the patched worktree: " + (rb.stdout.strip().splitlines() or ["?"])[-1])
        out = os.path.join(WT, name + "_out")
        shutil.rmtree(out, ignore_errors=True)
        os.makedirs(out)
        meta["checks"] = {}
        for c in (prop,) + tuple(extra_checks):
            t = time.time()
            r = sh(f"./check {c} --tier quick", cwd=HERE, env=dict(os.environ, VF_REPO=wt, VF_OUT=out, VF_FAST_FAIL="1"), timeout=7200)
            lines = [l[:300] for l in r.stdout.splitlines() if l.startswith(("VIOLATION", "  failure", "HARNESS"))]
            meta["checks"][c] = {"rc": r.returncode, "wall_s": round(time.time() - t, 1), "signatures": [l for l in lines if l.startswith("  failure")][:6]}
            meta["ran"].append(f"VF_REPO=<worktree> ./check {c} --tier quick -> exit {r.returncode}")
        meta["caught_by"] = [c for c, v in meta["checks"].items() if v["rc"] == 1]
        shutil.rmtree(out, ignore_errors=True)
    finally:
        sh(f"git -C /repo worktree remove --force {wt}")
        shutil.rmtree(wt, ignore_errors=True)
    meta["confirmed"] = bool(meta.get("demo_without_patch_rc") == 0 and meta.get("demo_with_patch_rc") not in (0, None)
                             and meta.get("baseline_still_green", True))
    json.dump(meta, open(os.path.join(d, "meta.json"), "w"), indent=1)
    return meta


def recheck(name):
    d = os.path.join(HERE, "seeded", name)
    prop = name.split("_")[0]
    wt = os.path.join(WT, name)
    sh(f"git -C /repo worktree remove --force {wt}")
    shutil.rmtree(wt, ignore_errors=True)
    os.makedirs(WT, exist_ok=True)
    assert sh(f"git -C /repo worktree add -q --detach {wt} HEAD").returncode == 0
    meta = json.load(open(os.path.join(d, "meta.json")))
    try:
        assert sh(f"git -C {wt} apply {d}/patch.diff").returncode == 0
        out = os.path.join(WT, name + "_out")
        shutil.rmtree(out, ignore_errors=True)
        os.makedirs(out)
        r = sh(f"./check {prop} --tier quick", cwd=HERE, env=dict(os.environ, VF_REPO=wt, VF_OUT=out, VF_FAST_FAIL="1"), timeout=7200)
        meta["final_recheck"] = {"rc": r.returncode, "verif_commit": sh(f"git -C {HERE} rev-parse --short HEAD").stdout.strip()}
        meta["caught_by"] = sorted(set(meta.get("caught_by") or []) | ({prop} if r.returncode == 1 else set())) if r.returncode == 1 else [c for c in (meta.get("caught_by") or []) if c != prop]
        shutil.rmtree(out, ignore_errors=True)
    finally:
        sh(f"git -C /repo worktree remove --force {wt}")
        shutil.rmtree(wt, ignore_errors=True)
    json.dump(meta, open(os.path.join(d, "meta.json"), "w"), indent=1)
    return meta


if __name__ == "__main__":
    args = list(sys.argv[1:])
    half = None
    if "--half" in args:
        i = args.index("--half")
        half = int(args[i + 1])
        del args[i:i + 2]
    names = [a for a in args if not a.startswith("--")] or sorted(n for n in os.listdir(os.path.join(HERE, "seeded")) if os.path.isdir(os.path.join(HERE, "seeded", n)))
    if "--skip-done" in sys.argv:
        names = [n for n in names if not os.path.exists(os.path.join(HERE, "seeded", n, "meta.json"))]
    names = [n for n in names if not n.startswith("own_")]
    if half is not None:
        names = names[half::2]
    for n in names:
        m = one(n)
        print(n, "confirmed=", m.get("confirmed"), "caught_by=", m.get("caught_by"), "baseline=", m.get("baseline_still_green"), flush=True)
