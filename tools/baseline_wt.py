#!/usr/bin/env python3
"""Run the repository's pinned baseline suite (guard OFF) and compare with
/root/.vp/BASELINE.json: every test in stable_pass must pass.  Exit 0 iff so."""
import json, os, subprocess, sys, tempfile, xml.etree.ElementTree as ET

base = json.load(open("/root/.vp/BASELINE.json"))
out = tempfile.mktemp(suffix=".junit.xml")
env = dict(os.environ)
env.pop("FLOWJAX_VERIF", None)
wt = sys.argv[1]; cmd = base["cmd"].replace("<file>", out).replace("cd /repo", "cd " + wt); env["PYTHONPATH"] = wt
extra = " ".join(sys.argv[2:])
p = subprocess.run(cmd + " " + extra, shell=True, env=env, stdout=subprocess.PIPE, stderr=subprocess.STDOUT, text=True)
tail = p.stdout.strip().splitlines()[-3:]
passed = set()
for tc in ET.parse(out).getroot().iter("testcase"):
    if not any(ch.tag in ("failure", "error", "skipped") for ch in tc):
        passed.add(f"{tc.get('classname')}::{tc.get('name')}")
os.remove(out)
missing = [t for t in base["stable_pass"] if t not in passed]
print("\n".join(tail))
print(f"baseline stable_pass={len(base['stable_pass'])} passed_now={len(passed)} missing={len(missing)}")
for m in missing[:40]:
    print("  MISSING", m)
sys.exit(1 if missing else 0)
