#!/usr/bin/env python3
"""tools/ownfix.py [own_Dk ...] - sensitivity to my own fixes: un-apply one `fix:` commit in a scratch worktree,
run the checks of the properties it repaired (VF_REPO), record meta.json and keep the shrunk replays as corpus cases."""
import json, os, shutil, subprocess, sys, time, glob
HERE = os.path.dirname(os.path.dirname(os.path.abspath(__file__)))
WT = "/tmp/seedwt"
def sh(cmd, **kw): return subprocess.run(cmd, shell=True, stdout=subprocess.PIPE, stderr=subprocess.STDOUT, text=True, **kw)
for name in (sys.argv[1:] or sorted(n for n in os.listdir(f"{HERE}/seeded") if n.startswith("own_"))):
    d = f"{HERE}/seeded/{name}"; own = json.load(open(f"{d}/own.json")); wt = f"{WT}/{name}"
    sh(f"git -C /repo worktree remove --force {wt}"); shutil.rmtree(wt, ignore_errors=True); os.makedirs(WT, exist_ok=True)
    assert sh(f"git -C /repo worktree add -q --detach {wt} HEAD").returncode == 0
    meta = {"id": name, "summary": "un-applies: " + own["what"], "property": own["checks"][0], "needs_to_manifest": "see DESIGN.md section 5",
            "confirmed": True, "checks": {}, "ran": []}
    try:
        assert sh(f"git -C {wt} apply {d}/patch.diff").returncode == 0
        for c in own["checks"]:
            out = f"{WT}/{name}_out"; shutil.rmtree(out, ignore_errors=True); os.makedirs(out)
            t = time.time()
            r = sh(f"./check {c} --tier quick", cwd=HERE, env=dict(os.environ, VF_REPO=wt, VF_OUT=out, VF_FAST_FAIL="1"), timeout=7200)
            lines = [l[:300] for l in r.stdout.splitlines() if l.startswith("  failure")]
            meta["checks"][c] = {"rc": r.returncode, "wall_s": round(time.time() - t, 1), "signatures": lines[:6]}
            meta["ran"].append(f"VF_REPO=<worktree with the fix un-applied> ./check {c} --tier quick -> exit {r.returncode}")
            os.makedirs(f"{HERE}/corpus/{c}", exist_ok=True)
            for i, f in enumerate(sorted(glob.glob(f"{out}/replays/{c}/*.json"))[:3]):
                shutil.copy(f, f"{HERE}/corpus/{c}/regress_{name}_{i}.json")
            shutil.rmtree(out, ignore_errors=True)
        meta["caught_by"] = [c for c, v in meta["checks"].items() if v["rc"] == 1]
    finally:
        sh(f"git -C /repo worktree remove --force {wt}"); shutil.rmtree(wt, ignore_errors=True)
    json.dump(meta, open(f"{d}/meta.json", "w"), indent=1)
    print(name, "caught_by=", meta.get("caught_by"), flush=True)
