#!/bin/sh
# Offline setup: make sure hypothesis is importable from /venv (wheelhouse only), nothing else to build.
set -e
cd "$(dirname "$0")"
if ! /venv/bin/python -c "import hypothesis" 2>/dev/null; then
  PIP_NO_INDEX=1 /venv/bin/pip install --no-index --find-links /opt/veriftools/wheels hypothesis
fi
/venv/bin/python -c "import hypothesis, numpy, scipy, jax, equinox, optax; print('setup ok: hypothesis', hypothesis.__version__)"
# atheris (coverage-guided fuzzing of the constructors' shape algebra, C13) lives beside the repo's packages
if [ ! -d .deps/atheris ]; then
  PIP_NO_INDEX=1 /venv/bin/pip install -q --no-index --find-links /opt/veriftools/wheels --target .deps atheris || echo "atheris unavailable: the C13 shape fuzzer will be skipped"
fi
mkdir -p evidence replays .work
